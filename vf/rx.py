"""E3: Python regular expressions (as parsed by re._parser) -> z3 regular-language terms.
Supports what the patterns built by YaLafi's shell/utils code use: literals, classes, ranges,
alternation, repetition, (non-)capturing groups.  Anchors / look-around raise Unsupported."""
import re._parser as sre
import re._constants as C

import z3


class Unsupported(Exception):
    pass


def _char(c):
    return z3.Re(z3.StringVal(chr(c)))


def _cls(items):
    alts = []
    neg = False
    for op, av in items:
        if op is C.NEGATE:
            neg = True
        elif op is C.LITERAL:
            alts.append(_char(av))
        elif op is C.RANGE:
            alts.append(z3.Range(chr(av[0]), chr(av[1])))
        elif op is C.CATEGORY:
            alts.append(_category(av))
        else:
            raise Unsupported(str(op))
    r = alts[0] if len(alts) == 1 else z3.Union(*alts)
    if neg:
        r = z3.Intersect(z3.AllChar(z3.ReSort(z3.StringSort())), z3.Complement(r))
    return r


def space_chars():
    """the characters matched by \\s in a str pattern (computed from Python's own tables)"""
    import re
    import sys
    rs = re.compile(r'\s')
    return [chr(c) for c in range(sys.maxunicode + 1) if chr(c).isspace() or rs.match(chr(c))]


_SPACE = None


def space_class(exclude=''):
    global _SPACE
    if _SPACE is None:
        _SPACE = space_chars()
    return z3.Union(*[_char(ord(c)) for c in _SPACE if c not in exclude])


def _category(av):
    if av is C.CATEGORY_SPACE:
        return space_class()
    if av is C.CATEGORY_NOT_SPACE:
        return z3.Intersect(z3.AllChar(z3.ReSort(z3.StringSort())), z3.Complement(space_class()))
    if av is C.CATEGORY_DIGIT:
        return z3.Range('0', '9')
    raise Unsupported(str(av))


def tr(parsed):
    seq = []
    for op, av in parsed:
        if op is C.LITERAL:
            seq.append(_char(av))
        elif op is C.IN:
            seq.append(_cls(av))
        elif op is C.ANY:
            seq.append(z3.AllChar(z3.ReSort(z3.StringSort())))
        elif op is C.BRANCH:
            seq.append(z3.Union(*[tr(b) for b in av[1]]))
        elif op is C.SUBPATTERN:
            seq.append(tr(av[3]))
        elif op in (C.MAX_REPEAT, C.MIN_REPEAT):
            lo, hi, sub = av
            r = tr(sub)
            if hi is C.MAXREPEAT:
                seq.append(z3.Star(r) if lo == 0 else (z3.Plus(r) if lo == 1 else
                                                       z3.Concat(z3.Loop(r, lo, lo), z3.Star(r))))
            else:
                seq.append(z3.Loop(r, lo, hi))
        else:
            raise Unsupported(str(op))
    if not seq:
        return z3.Re(z3.StringVal(''))
    return seq[0] if len(seq) == 1 else z3.Concat(*seq)


def to_z3(pattern):
    return tr(sre.parse(pattern))
