"""The real shell environment without its process I/O.

yalafi/shell/shell.py is a script: option parsing, derived globals (equation placeholder
alternatives, accepted single-letter patterns, json helpers, `vars`) are module-level
statements.  We re-read the file on every run, take its top-level statements by AST and
execute all of them except the ones doing process I/O (config file, LT server start/stop,
--add-modules, the --include work list, server loop, report output).  The result is the very
`vars` / `cmdline` objects the real shell hands to proofreader.py and the report generators.
Environment stubs (part of the claims of C14-C16, C20): run_languagetool (the proofreader
process) returns the answer given by the harness and records its arguments.
"""
import ast
import importlib
import io
import os
import sys

from vf import yal

SKIP_PREFIX = (
    'if not cmdline.no_config',
    "if cmdline.server == 'stop'",
    'if cmdline.add_modules',
    'if cmdline.include',
    'def skip_file',
    'todo = cmdline.file',
    'done = []',
    'while todo',
    'cmdline.file = done',
    'if cmdline.as_server is not None',
    'out_utf8 = ',
    "if cmdline.output == 'plain'",
    'if cmdline.replace:',
    'if cmdline.define:',
)


def shell_source():
    return open(os.path.join(yal.REPO, 'yalafi', 'shell', 'shell.py'), encoding='utf-8').read()


def make(argv, replace=None, define=None):
    """returns the namespace after executing the shell's set-up statements for argv"""
    src = shell_source()
    mod = ast.parse(src)
    ns = {'__name__': 'yalafi.shell.shell_slice'}
    old_argv = sys.argv
    sys.argv = ['yalafi.shell'] + list(argv) + ['--no-config']
    try:
        for node in mod.body:
            txt = ast.unparse(node)
            if txt.startswith(SKIP_PREFIX):
                continue
            code = compile(ast.Module(body=[node], type_ignores=[]), 'shell.py', 'exec')
            exec(code, ns)
    finally:
        sys.argv = old_argv
    cmd = ns['cmdline']
    cmd.replace = replace
    cmd.define = define
    return ns


def worklist_function():
    """the --include work list of shell.py (statements `def skip_file` .. `cmdline.file =
    done`) as a function worklist(cmdline, tex2txt, opts, re, sys) -> done"""
    mod = ast.parse(shell_source())
    body = mod.body
    i0 = next(i for i, n in enumerate(body)
              if isinstance(n, ast.FunctionDef) and n.name == 'skip_file')
    i1 = next(i for i, n in enumerate(body)
              if isinstance(n, ast.Assign) and ast.unparse(n).startswith('cmdline.file = done'))
    sl = body[i0:i1 + 1]
    fn = ast.FunctionDef(
        name='worklist',
        args=ast.arguments(posonlyargs=[], args=[ast.arg('cmdline'), ast.arg('tex2txt'),
                                                 ast.arg('opts')],
                           kwonlyargs=[], kw_defaults=[], defaults=[]),
        body=sl + [ast.Return(ast.Name('done', ast.Load()))], decorator_list=[])
    m = ast.Module(body=[fn], type_ignores=[])
    ast.fix_missing_locations(m)
    import re
    ns = {'re': re, 'sys': sys, 'os': os}
    exec(compile(m, 'shell_worklist', 'exec'), ns)
    return ns['worklist'], [ast.unparse(n).split('\n')[0] for n in sl]


REAL_LT = None


class Env:
    """proofreader + generators initialised from the real `vars`"""
    def __init__(self, argv, replace=None, define=None):
        self.ns = make(argv, replace, define)
        self.vars = self.ns['vars']
        self.cmdline = self.ns['cmdline']
        from yalafi.shell import proofreader, gentext, genjson, genxml, genhtml, server, checks
        for m in (proofreader, gentext, genxml, genhtml):
            m.init(self.vars)
        self.proofreader, self.gentext, self.genjson = proofreader, gentext, genjson
        self.genxml, self.genhtml, self.server, self.checks = genxml, genhtml, server, checks
        self.calls = []
        self.answer = None

        def fake_lt(plain, language, disable, enable, disablecategories, enablecategories,
                    lt_options):
            self.calls.append({'plain': plain, 'language': language, 'disable': disable,
                               'enable': enable, 'disablecategories': disablecategories,
                               'enablecategories': enablecategories,
                               'lt_options': list(lt_options)})
            return self.answer(plain, language, len(self.calls) - 1)
        global REAL_LT
        if REAL_LT is None:
            REAL_LT = proofreader.run_languagetool
        proofreader.run_languagetool = fake_lt

    def json_get(self):
        return self.vars.json_get
