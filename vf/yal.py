"""Access to the real YaLafi modules in /repo plus the environment stubs (part of every claim):
 * stderr of yalafi.utils: symbolic runs get a recorder that keeps line/column as *terms*
   (formatting str(symbolic int) would make CrossHair enumerate values); native runs parse
   the real stderr text.
 * nothing else of yalafi is replaced here.
"""
import contextlib
import io
import os
import re
import sys

REPO = os.environ.get('VERIF_REPO', '/repo')
if REPO not in sys.path:
    sys.path.insert(0, REPO)

from yalafi import tex2txt  # noqa: E402  (first: resolves yalafi's import cycle)
from yalafi import defs, parameters, parser, scanner, utils  # noqa: E402
from yalafi import handlers, mathparser  # noqa: E402,F401

Options = tex2txt.Options


class _Parts:
    """string concatenation that keeps non-str operands (symbolic ints) unformatted"""
    def __init__(self, parts):
        self.parts = parts

    def __add__(self, o):
        return _Parts(self.parts + (o.parts if isinstance(o, _Parts) else [o]))

    def __radd__(self, o):
        return _Parts((o.parts if isinstance(o, _Parts) else [o]) + self.parts)


def _marker_str(x):
    if isinstance(x, str):
        return x
    return _Parts([('INT', x)])


class Recorder:
    def __init__(self):
        self.events = []      # (lin, col, err) -- lin/col may be symbolic
        self.raw = []

    def write(self, s):
        if isinstance(s, _Parts):
            ints = [p[1] for p in s.parts if isinstance(p, tuple)]
            txt = ''.join(p for p in s.parts if isinstance(p, str))
            if len(ints) == 2 and txt.startswith('*** LaTeX error'):
                self.events.append((ints[0], ints[1], txt))
            else:
                self.raw.append(txt)
        else:
            self.raw.append(s)
        return 0

    def flush(self):
        pass


class _FakeSys:
    def __init__(self, rec):
        self.stderr = rec
        self.argv = ['yalafi']
        self.exit = sys.exit


@contextlib.contextmanager
def symbolic_stderr():
    """inside: yalafi.utils writes diagnostics to a Recorder with unformatted numbers"""
    rec = Recorder()
    old_sys = utils.sys
    utils.sys = _FakeSys(rec)
    utils.str = _marker_str
    try:
        yield rec
    finally:
        utils.sys = old_sys
        if 'str' in utils.__dict__:
            del utils.__dict__['str']


_DIAG = re.compile(r'\*\*\* LaTeX error: line (\d+), column (\d+):\n\*\*\* (.*)\n')


def run_native(latex, opts=None, multi_language=False, modify_parms=None):
    """the real filter on a real string; returns (result, [(lin, col, err)], stderr_text)"""
    if opts is None:
        opts = Options()
    buf = io.StringIO()
    with contextlib.redirect_stderr(buf):
        res = tex2txt.tex2txt(latex, opts, multi_language, modify_parms)
    err = buf.getvalue()
    diags = [(int(a), int(b), c) for a, b, c in _DIAG.findall(err)]
    return res, diags, err


def mkopts(o):
    """Options from a plain dict (JSON-able item description)"""
    o = dict(o or {})
    o.pop('ml', None)
    return Options(**o)


def _preimport():
    """import every package / class module once, natively: `import` statements executed by
    \\usepackage while a document is parsed under the tracer then hit the module cache"""
    import glob
    import importlib
    for sub in ('packages', 'documentclasses'):
        for f in sorted(glob.glob(os.path.join(REPO, 'yalafi', sub, '*.py'))):
            name = os.path.basename(f)[:-3]
            if name != '__init__':
                try:
                    importlib.import_module('yalafi.%s.%s' % (sub, name))
                except Exception:      # noqa: a broken module shows up in the checks
                    pass


_preimport()


def _native_parser_init():
    """Parser.__init__ (tables of built-in macros, package set-up for the --pack option) does
    not depend on the document: under CrossHair it is executed natively instead of traced
    (same code, same result, ~10x faster per path).  Packages loaded BY the document
    (\\usepackage) are still initialised under the tracer."""
    try:
        from crosshair.core_and_libs import NoTracing
    except ImportError:
        return
    orig = parser.Parser.__init__
    if getattr(orig, '_vf_native', False):
        return

    def init(self, parms, packages=[], read_macros=None):
        with NoTracing():
            orig(self, parms, packages, read_macros)
    init._vf_native = True
    parser.Parser.__init__ = init
    orig_p = parameters.Parameters.__init__

    def pinit(self, language='en'):
        with NoTracing():
            orig_p(self, language)
    parameters.Parameters.__init__ = pinit


_native_parser_init()
