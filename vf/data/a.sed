s/\\cref{eq:1}/\\cref@equation@name \\nobreakspace \\textup {(\\ref {eq:1})}/g
s/\\Cref{sec:intro}/\\Cref@section@name \\nobreakspace \\ref {sec:intro}/g
s/\\cref@equation@name /eq\./g
s/\\Cref@section@name /Section/g
