s/\\cref{eq:2}/\\cref@equation@name \\nobreakspace \\textup {(\\ref {eq:2})}/g
s/\\cref@equation@name /formula/g
