s/\\cref{x}/eqs.          (1)--(2)\\,y/g
s/\\crefrange{a}{b}/items                  (3)  to  (4)/g
