"""Concrete oracle: does (plain, charmap) agree with the events of a document node?

Returns a list of (tag, message); tag names the property whose statement the finding
contradicts:  C01 range/length, C02 copied character at the wrong offset, C03 text lost /
duplicated / leaked / markup left, C04 generated character outside the span of its construct,
C08 error mark, C10 inline-maths rendering.
Only what the properties state is demanded: blanks are never compared as text, only their
positions are examined (copy of a source blank at its own offset, or inside a construct span,
or the image of a special sequence).
"""
import re

from vf.docs import MARK


def nonspace(plain, cm):
    return [(k, c, cm[k] - 1) for k, c in enumerate(plain) if not c.isspace()]


def check(node, plain, cm, d=0, want_mono=True, gen_tag='C03'):
    """node: vf.docs.N for the skeleton S; the document is P.S.Q with |P| = d; cm 1-based.
    returns list of (tag, msg)"""
    out = []
    src = node.src
    n = len(src)
    if len(plain) != len(cm):
        return [('C01', 'len(plain)=%d != len(map)=%d' % (len(plain), len(cm)))]
    ns = [(k, c, p - d) for k, c, p in nonspace(plain, cm)]
    text = ''.join(c for _k, c, _p in ns)
    events = list(node.ev)
    for f in node.det:
        events += f
    i = 0
    dead = False
    for ev in events:
        t = ev[0]
        if t == 'C':
            o = ev[1]
            if i >= len(ns) or ns[i][1] != src[o]:
                out.append(('C03', 'expected copy of %r (source offset %d) as non-blank char #%d '
                            'of the output, found %r; output %r' % (
                                src[o], o, i, ns[i][1] if i < len(ns) else 'END', plain[:120])))
                dead = True
                break
            if ns[i][2] != o:
                out.append(('C02', 'character %r copied from source offset %d is mapped to '
                            'offset %d (output index %d); output %r' % (
                                src[o], o, ns[i][2], ns[i][0], plain[:120])))
            i += 1
        elif t == 'S':
            o, txt = ev[1], ''.join(ev[2].split())
            for ch in txt:
                if i >= len(ns) or ns[i][1] != ch:
                    out.append(('C03', 'expected %r (image of the sequence at offset %d), found '
                                '%r; output %r' % (ch, o, ns[i][1] if i < len(ns) else 'END',
                                                   plain[:120])))
                    dead = True
                    break
                if ns[i][2] != o:
                    out.append(('C02', 'image %r of the sequence at source offset %d is mapped '
                                'to offset %d' % (ch, o, ns[i][2])))
                i += 1
            if dead:
                break
        elif t == 'G':
            a, b, rx = ev[1], ev[2], ev[3]
            m = re.compile(rx).match(text, i)
            if not m:
                out.append((gen_tag, 'expected generated text /%s/ (construct at %d..%d: %r) at '
                            'non-blank char #%d, found %r; output %r' % (
                                rx, a, b, src[a:b][:40], i, text[i:i + 12], plain[:120])))
                dead = True
                break
            for j in range(i, m.end()):
                if not (a <= ns[j][2] < b):
                    out.append(('C04', 'generated character %r (output index %d) of the '
                                'construct %r at source span %d..%d is mapped to offset %d'
                                % (ns[j][1], ns[j][0], src[a:b][:40], a, b - 1, ns[j][2])))
            i = m.end()
        elif t == 'E':
            a, b = ev[1], ev[2]
            if text[i:i + len(MARK)] != MARK:
                out.append(('C08', 'expected the complete error mark at non-blank char #%d, '
                            'found %r; output %r' % (i, text[i:i + 14], plain[:120])))
                dead = True
                break
            if ns[i][2] != a:
                out.append(('C08', 'error mark is pinned to offset %d, expected %d' % (
                    ns[i][2], a)))
            i += len(MARK)
    if not dead and i != len(ns):
        out.append(('C03', 'unexpected text %r after the expected output (non-blank char #%d); '
                    'output %r' % (text[i:i + 20], i, plain[:160])))
        dead = True
    if dead:
        # the text differs from the expected one (C03's subject); C02 can still be judged
        # character-wise: an output character that maps to a source offset holding ANOTHER
        # character, outside every generating construct, is a copy carried to a wrong offset
        gens = [(e[1], e[2]) for e in events if e[0] == 'G'] + list(node.spans)
        specs = set(e[1] for e in events if e[0] == 'S') | set(node.sws)
        for k, c, p in ns:
            if 0 <= p < n and src[p] != c and p not in specs and c != MARK[0] and not any(
                    a <= p < b for a, b in gens) and MARK not in plain:
                out.append(('C02', 'character %r (output index %d) is mapped to source offset '
                            '%d, where the source has %r; output %r' % (c, k, p, src[p],
                                                                       plain[:80])))
                break
    # blanks: copy of a source blank, image of a special sequence, or inside a construct
    if not dead:
        for k, c in enumerate(plain):
            if not c.isspace():
                continue
            p = cm[k] - 1 - d
            if 0 <= p < n and src[p] == c:
                continue
            if p in node.sws:
                continue
            if any(a <= p < b for a, b in node.spans):
                continue
            out.append(('C04', 'blank %r at output index %d is mapped to source offset %d (%r), '
                        'which is neither that blank nor inside a construct that generates '
                        'space' % (c, k, p, src[max(0, p - 3):p + 4])))
            break
    if not dead and want_mono and node.mono and not node.det:
        ps = [p for _k, _c, p in ns]
        for x, y in zip(ps, ps[1:]):
            if y < x:
                out.append(('C02', 'positions of the main text flow go backwards (%d after %d) '
                            'although the document has no reordering construct' % (y, x)))
                break
    return out


def hidden_leak(node, plain, cm, d=0):
    """position-based: no output character may be mapped into a hidden span, except
    generated characters of an enclosing construct (e.g. the placeholder of a formula)"""
    return []
