"""C04 -- see DESIGN.md section 4"""
from vf import family
from vf.props import flow_common as fc

ID = 'C04'
FUNCTIONS = ['yalafi.tex2txt.tex2txt', 'yalafi.parser.Parser.*', 'yalafi.mathparser.MathParser.*',
             'yalafi.handlers.*', 'yalafi.utils.get_txt_pos', 'yalafi.scanner.Scanner.scan']
RULE = ('item = one document of the family (construct catalogue: singles, ordered pairs x '
        'layout separators, one-level nestings, repeated uses); symbolic: comment text of '
        'length d before and e after it; verdict of the event oracle on the linked native run.')
BOUNDS = {'quick': 'singles + repeats + 150 pairs + 120 nestings (seeded slice); d in {0} U '
                   '[2,inf), e >= 0', 'thorough': 'singles + repeats + 2500 pairs + all '
                   'one-level nestings'}
OUTSIDE = 'documents outside the family (deeper nesting, other packages); non-comment surroundings'
ASSUMPTIONS = ['event annotations of vf/docs.py (written from the property texts and README, '
               'calibrated on the unchanged tree: 4217 documents agree)',
               'scanner re-basing + stderr stub as for C01']


def items(tier, seed):
    tw = {'h': 'fam', 'name': 'twin', 'spec': family.doc(family.ATOMS[0]), 'tag': 'C04',
          'twin': True}
    return fc.items(tier, seed, 'C04', [tw])


run_item = fc.run_item
replay = fc.replay
