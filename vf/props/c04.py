"""C04 -- see DESIGN.md section 4"""
from vf import family
from vf.family import T
from vf.props import flow_common as fc

ID = 'C04'
FUNCTIONS = ['yalafi.tex2txt.tex2txt', 'yalafi.parser.Parser.*', 'yalafi.mathparser.MathParser.*',
             'yalafi.handlers.*', 'yalafi.utils.get_txt_pos', 'yalafi.scanner.Scanner.scan']
RULE = ('item = one document of the family (construct catalogue: singles, ordered pairs x '
        'layout separators, one-level nestings, repeated uses); symbolic: comment text of '
        'length d before and e after it; verdict of the event oracle on the linked native run.')
BOUNDS = {'quick': 'singles + repeats + 150 pairs + 120 nestings (seeded slice); d in {0} U '
                   '[2,inf), e >= 0', 'thorough': 'singles + repeats + 2500 pairs + all '
                   'one-level nestings'}
OUTSIDE = 'documents outside the family (deeper nesting, other packages); non-comment surroundings'
ASSUMPTIONS = ['event annotations of vf/docs.py (written from the property texts and README, '
               'calibrated natively on the tree under test: 4651 documents agree (tools/calibrate.py))',
               'scanner re-basing + stderr stub as for C01']


EXTRA = {
    # name: (spec, options)
    'seqs_equation': (['cat', T('A'), '\n', ['G', '\\begin{equation}\na = b,\n\\end{equation}', '[U-Z]-[U-Z]-[U-Z],'],
                       '\n', T('next'), ' ', ['G', '$$ c; $$', '[U-Z]-[U-Z]-[U-Z];'], ' ', T('B')], {'seqs': True}),
    'seqs_align': (['cat', T('A'), '\n', ['G', '\\begin{align*}\nx &= y \\\\\n &= z.\n\\end{align*}',
                                          '[U-Z]-[U-Z]-[U-Z]\\.'], T('B')], {'seqs': True, 'pack': 'amsmath'}),
    'seqs_bracket': (['cat', T('A'), ' ', ['G', '\\[ u: \\]', '[U-Z]-[U-Z]-[U-Z]:'], T('B')], {'seqs': True}),
    'display_punct': (['cat', T('A'), '\n', ['G', '\\[ u = v. \\]', 'V-V-V\\.'], '\n', T('B')], {}),
    'cref_sed': (['cat', '\\usepackage[poorman]{cleveref}\\YYCleverefInput{/verif/vf/data/c.sed}', T('A'), ' ',
                  ['G', '\\cref{x}', 'eqs\\.\\(1\\)–\\(2\\)y'], ' ', T('B'), ' ',
                  ['G', '\\crefrange{a}{b}', 'items\\(3\\)to\\(4\\)'], ' ', T('C'), ' ',
                  ['G', '\\cref{x}', 'eqs\\.\\(1\\)–\\(2\\)y'], ' ', T('D'), ' ',
                  ['G', '\\crefrange{a}{b}', 'items\\(3\\)to\\(4\\)'], ' ', T('E')], {}),
    'proof_de': (['cat', T('A'), '\n', ['proof', ['cat', '\n', T('B'), '\n'], None, 'Beweis'], '\n', T('C')],
                 {'pack': 'amsthm', 'lang': 'de'}),
}


def items(tier, seed):
    tw = {'h': 'fam', 'name': 'twin', 'spec': family.doc(family.ATOMS[0]), 'tag': 'C04',
          'twin': True}
    ex = [{'h': 'fam', 'name': 'extra:' + n, 'spec': sp, 'tag': 'C04', 'opts': o}
          for n, (sp, o) in EXTRA.items()]
    return fc.items(tier, seed, 'C04', [tw] + ex)


run_item = fc.run_item
replay = fc.replay
