"""C07 -- the filter is total: arbitrary input never crashes or hangs it."""
from vf import harness, offrun, skeletons, sketch, srcmodel, yal

ID = 'C07'
FUNCTIONS = ['yalafi.tex2txt.tex2txt', 'yalafi.scanner.Scanner.*', 'yalafi.parser.Parser.*',
             'yalafi.mathparser.MathParser.*', 'yalafi.handlers.*', 'yalafi.packages.*',
             'yalafi.utils.get_txt_pos_ml']
RULE = ('any: the whole filter on a fully symbolic string of length <= N over ALL code points, x '
        'option sets; hole: a hole of <= L arbitrary characters at the start / inside an argument '
        '/ before the end of base documents that reach every handler indexing into its '
        'arguments; trunc: every truncation and single-token deletion of the skeleton catalogue '
        'with symbolic surrounding offsets.  Verdict: a result or the documented SystemExit; an '
        'abandoned path (time-out) is re-run natively under a 20 s alarm.')
BOUNDS = {'quick': 'any: N <= 2 x 5 option sets; hole: L <= 2 in 40 base documents; trunc: 3 per '
                   'skeleton', 'thorough': 'any: N <= 3; hole: L <= 2 (all), L = 3 for key-value '
                   'handlers; trunc: all'}
OUTSIDE = 'recursive definitions, exponential expansions, interpreter stack depth, redefinition ' \
          'of the default equation environment (as stated in the property)'
ASSUMPTIONS = ['termination = result within the per-path budget (20 s) -- a time budget, not a '
               'ranking-function proof']

OPTS = [{}, {'pack': '*', 'lang': 'de'}, {'pack': '*', 'lang': 'ru', 'seqs': True},
        {'nosp': True, 'pack': '*', 'extr': 'footnote,section'},
        {'pack': '*,cleveref', 'dcls': 'scrartcl', 'unkn': True}]

# (pre, post): the hole stands between them
BASES = [
    ('', 'A \\textbf{B} $x$'),
    ('A \\textbf{B} $x$ ', ''),
    ('A \\section{', '} B'),
    ('A \\section[', ']{T} B'),
    ('A \\cite[', ']{k} B'),
    ('A \\footnote{', '} B'),
    ('A $', '$ B'),
    ('A \\[ x ', ' \\] B'),
    ('\\begin{align} a &', '= b \\end{align}'),
    ('\\begin{itemize}\\item', ' B\\end{itemize}'),
    ('\\begin{enumerate}\\item[', '] B\\end{enumerate}'),
    ('\\newcommand{\\foo}[1][', ']{X#1} \\foo'),
    ('\\newcommand{\\foo}[', ']{X#1} \\foo{A}'),
    ('\\newcommand{\\foo}[2]{', '} \\foo{A}{B}'),
    ('\\newcommand{', '}{X} A'),
    ('\\def\\foo', '{X} \\foo A'),
    ('\\def\\foo#1#2{', '} \\foo A'),
    ('\\def\\foo', '{#1} \\foo A'),
    ('\\def\\foo#1', '{#2} \\foo A B'),
    ('\\def\\foo[#1]', '{#3#1} \\foo[A]'),
    ('\\newtheorem{', '}{Thm}'),
    ('\\newtheorem{t}{T}\\begin{t}[', '] A \\end{t}'),
    ('\\begin{proof}[', '] A \\end{proof}'),
    ('\\begin{', '} A'),
    ('A \\end{', '} B'),
    ('\\usepackage[a=', ']{babel} A'),
    ('\\usepackage[', ']{babel} A'),
    ('\\usepackage{', '} A'),
    ('\\documentclass[', ']{article} A'),
    ('\\newglossaryentry{x}{name=', '} A'),
    ('\\newglossaryentry{x}{', '} A'),
    ('\\newglossaryentry{x}{description', '} A'),
    ('\\newglossaryentry{x}{name', ',description} A \\gls{x}'),
    ('\\newacronym{x}{', '}{y} A'),
    ('\\gls@defglossaryentry{x}{text=', '}\\gls{x}'),
    ('\\gls{', '} A'),
    ('\\selectlanguage{', '} A "a'),
    ('\\foreignlanguage{german}{', '} A'),
    ('\\begin{otherlanguage}{', '} A'),
    ('A \\hspace{', '} B'),
    ('A \\phantom{', '} B'),
    ('A \\verb', 'x| B'),
    ('A \\begin{verbatim}', 'x\\end{verbatim} B'),
    ('A \\"', ' B'),
    ('A \\LTinput{', '} B'),
    ('\\cref{', '} A \\crefname{x}{y}{z}'),
    ('\\begin{tabular}{', '} A & B \\\\ C\\end{tabular}'),
    ('A \\\\[', '] B'),
    ('\\geometry{a=', '} A'),
    ('\\includegraphics[width=', ']{f} A'),
    ('\\lstset{', '} A'),
    ('\\textcolor{', '}{B} C \\href{u}{V}'),
    ('A "', ' B'),
    ('\\newcommand{\\foo}{', '} \\foo A'),
    ('\\renewcommand*{\\foo}[1]{', '} \\foo{A}\\foo B'),
]

# repetitions: pre . unit^n . post with a symbolic count n (counters, label generators,
# rotating collections, nesting depth)
REPS = [
    ('\\begin{enumerate}', '\\item x ', '\\end{enumerate}', 60),
    ('\\begin{enumerate}\\item\\begin{enumerate}', '\\item x ', '\\end{enumerate}\\end{enumerate}', 60),
    ('\\begin{enumerate}\\item\\begin{enumerate}\\item\\begin{enumerate}', '\\item x ',
     '\\end{enumerate}\\end{enumerate}\\end{enumerate}', 60),
    ('\\begin{itemize}', '\\item x ', '\\end{itemize}', 40),
    ('', '\\begin{enumerate}\\item x ', 'A', 12),
    ('', '\\begin{itemize}\\item x ', 'A', 12),
    ('A ', '$x$ ', 'B', 40),
    ('A ', '\\[ y \\] ', 'B', 40),
    ('\\begin{align} a', ' &= b \\\\ c', '\\end{align}', 40),
    ('A ', '\\foreignlanguage{german}{x} ', 'B', 40),
    ('A', '\\footnote{f}', ' B', 30),
    ('A ', '{', ' B', 40),
    ('A ', '\\textbf{', ' B', 40),
    ('A ', '}', ' B', 10),
    ('\\newcommand{\\foo}[1]{<#1>}A ', '\\foo', ' B C', 20),
    ('A ', '\\"', 'a B', 8),
    ('A ', '-', ' B', 12),
    ('A ', "'", ' B', 12),
    ('A ', '\\gls{ab}', ' B', 20),
]


def base_opts(doc):
    """only the packages the base document needs (package set-up is re-executed, traced, on
    every path)"""
    need = []
    for key, pk in (('align', 'amsmath'), ('proof', 'amsthm'), ('gls', 'glossaries'), ('gloss', 'glossaries'),
                    ('acronym', 'glossaries'),
                    ('language', 'babel'), ('cref', 'cleveref'), ('geometry', 'geometry'),
                    ('includegraphics', 'graphicx'), ('lstset', 'listings'),
                    ('textcolor', 'xcolor'), ('href', 'hyperref')):
        if key in doc:
            need.append(pk)
    o = {'pack': ','.join(sorted(set(need)))}
    if '"' in doc or 'language' in doc:
        o['lang'] = 'de'
    return o


def items(tier, seed):
    out = []
    N = 2 if tier == 'quick' else 3
    for oi in range(len(OPTS)):
        for n in range(0, N + 1):
            if n >= 2 and OPTS[oi].get('pack'):
                continue          # package set-up under the tracer costs seconds per path
            for ml in (False, True):
                if ml and OPTS[oi].get('unkn'):
                    continue
                out.append({'h': 'any', 'N': n, 'o': oi, 'ml': ml, 'cost': 30 ** n, 'budget': 600})
    for bi in range(len(BASES)):
        kv = '=' in BASES[bi][0] or 'usepackage[' in BASES[bi][0] or 'newglossary' in BASES[bi][0]
        if tier == 'quick':
            # one work item per base document: all 24 x 25 holes of <= 2 atoms
            out.append({'h': 'hole', 'b': bi, 'L': 2, 'first': -1, 'cost': 600, 'budget': 900})
        else:
            for first in range(len(SYNTAX)):
                out.append({'h': 'hole', 'b': bi, 'L': 3, 'first': first, 'cost': 24 ** 2,
                            'budget': 3000})
    for ri in range(len(REPS)):
        out.append({'h': 'rep', 'r': ri, 'cost': REPS[ri][3]})
    per = 3 if tier == 'quick' else 12
    for name, S, o in skeletons.malformed(seed + 5, per):
        out.append({'h': 'trunc', 'name': name, 'S': S, 'opts': dict(o), 'ml': False})
        out.append({'h': 'trunc', 'name': name, 'S': S, 'opts': dict(o, lang='de', pack='*'),
                    'ml': True})
    # every prefix (character-wise truncation point) of every skeleton, incl. the faulty ones
    docs = [(n, v[0], v[1]) for n, v in skeletons.WELL.items()]
    docs += [('F:' + n, v[0], v[1]) for n, v in skeletons.FAULTY.items()]
    for name, S, o in docs:
        out.append({'h': 'prefix', 'name': name, 'S': S, 'opts': dict(o), 'cost': len(S)})
    for name, S, o in [(n, v[0], v[1]) for n, v in skeletons.FAULTY.items()]:
        out.append({'h': 'trunc', 'name': 'F:' + name, 'S': S, 'opts': dict(o), 'ml': False})
    out.append({'h': 'any', 'N': 1, 'o': 0, 'ml': False, 'twin': True})
    return out


def build(item):
    twin = bool(item.get('twin'))
    h = item['h']

    def orc(h0, doc, flat, diags):
        return 'TWIN' if twin else None
    if h == 'any':
        n = item['N']
        return sketch.make('', '', 'ANY', n, OPTS[item['o']], orc, ml=item['ml'], lmin=n,
                           splice=False, accept_exit=True, exc_tag='C07')
    if h == 'hole':
        return build_hole(item, twin)
    if h == 'prefix':
        return build_prefix(item)
    if h == 'rep':
        return build_rep(item)
    S = item['S']
    pre_ok, suf_ok = srcmodel.rebase_ok(S, nosp=bool(item['opts'].get('nosp')))
    prop, conc = offrun.make(S, item['opts'], item['ml'], None, pre_ok, suf_ok, exit_ok=True)

    def concrete(w):
        try:
            return conc(w)
        except Exception as ex:      # noqa
            return 'C07 unhandled %s: %s on %r' % (type(ex).__name__, str(ex)[:100], S)
    return prop, concrete


SYNTAX = ['{', '}', '[', ']', '\\', '%', '#', '$', '&', '~', '^', '_', '=', ',', '-', '"', "'", '`',
          ' ', '\n', 'a', '1', '*', '|', '0']


def build_hole(item, twin):
    """the hole is a symbolic choice of L atoms from SYNTAX (first one fixed per work item):
    the solver enumerates every combination, the real filter runs natively on each (a fully
    symbolic hole is not affordable here: handlers use the text as dictionary keys / file
    names, which makes CrossHair enumerate code points)"""
    pre, post = BASES[item['b']]
    L, first = item['L'], item['first']
    E = len(SYNTAX)
    opts = base_opts(pre + post)

    def run(idx):
        if first < 0:
            doc = pre + ''.join(SYNTAX[i] for i in idx if i < E) + post
        else:
            doc = pre + SYNTAX[first] + ''.join(SYNTAX[i] for i in idx if i < E) + post

        def go(_w):
            for ml in (False, True):
                try:
                    yal.run_native(doc, yal.mkopts(opts), ml)
                except SystemExit:
                    pass
            return None
        r = harness.native_guarded(go, {'doc': doc}, 15)
        if r is not None:
            return 'C07 ' + str(r)
        return None

    def pre_ok(idx):
        ok = all(0 <= i <= E for i in idx)
        for a, b in zip(idx, idx[1:]):
            if a == E and b != E:
                ok = False
        return ok

    def prop(a: int, b: int, c: int):
        from vf import driver as D
        idx = [a, b, c]
        n = L if first < 0 else L - 1
        if not pre_ok(idx[:n]) or any(x != E for x in idx[n:]):
            return D.SKIP
        tab = list(range(E + 1))
        k = [tab[x] for x in idx]
        with D.NoTracing():
            return run([int(x) for x in k]) or True

    def concrete(w):
        idx = [w['a'], w['b'], w['c']]
        return run(idx) if pre_ok(idx) else None
    return prop, concrete


def build_rep(item):
    pre, unit, post, N = REPS[item['r']]
    opts = base_opts(pre + unit + post)
    if 'gls' in unit:
        pre = '\\gls@defglossaryentry{ab}{name={AB},text={ab}}' + pre

    def run(n):
        doc = pre + unit * n + post

        def go(_w):
            for ml in (False, True):
                try:
                    yal.run_native(doc, yal.mkopts(opts), ml)
                except SystemExit:
                    pass
            return None
        r = harness.native_guarded(go, {'doc': doc}, 30)
        return ('C07 ' + str(r)) if r is not None else None

    def prop(n: int):
        from vf import driver as D
        if not (0 <= n <= N):
            return D.SKIP
        nn = list(range(N + 1))[n]
        with D.NoTracing():
            return run(int(nn)) or True

    def concrete(w):
        return run(w['n']) if 0 <= w['n'] <= N else None
    return prop, concrete


def build_prefix(item):
    S = item['S']
    variants = [dict(item['opts']), dict(item['opts'], lang='de', pack='*'),
                dict(item['opts'], nosp=True, seqs=True)]

    def run(k):
        doc = S[:k]

        def go(_w):
            for o in variants:
                for ml in (False, True):
                    try:
                        yal.run_native(doc, yal.mkopts(o), ml)
                    except SystemExit:
                        pass
            return None
        r = harness.native_guarded(go, {'doc': doc}, 20)
        return ('C07 ' + str(r)) if r is not None else None

    def prop(k: int):
        from vf import driver as D
        if not (0 <= k <= len(S)):
            return D.SKIP
        kk = list(range(len(S) + 1))[k]
        with D.NoTracing():
            return run(int(kk)) or True

    def concrete(w):
        return run(w['k']) if 0 <= w['k'] <= len(S) else None
    return prop, concrete


def run_item(item):
    prop, concrete = build(item)
    return harness.run(prop, concrete, item, budget_s=harness.budget(item, 200), per_path_s=20)


def replay(rep):
    prop, concrete = build(rep['item'])
    return harness.native_guarded(concrete, rep['witness'], 60)
