"""C16 -- HTML report: faithful source, each match once, content cannot break the markup."""
import copy
import html
import re
from html.parser import HTMLParser

from vf import harness, shellenv

ID = 'C16'
FUNCTIONS = ['yalafi.shell.genhtml.protect_html', 'yalafi.shell.genhtml.generate_html',
             'yalafi.shell.genhtml.generate_highlight', 'yalafi.shell.genhtml.begin_match',
             'yalafi.shell.genhtml.add_line_numbers']
RULE = ('esc: protect_html on a fully symbolic string of <= 2 characters (any code point): the '
        'image decodes back to the string and contains no < > " and no bare &; rep: real '
        'generate_html on a source x two matches with symbolic offset of the first, symbolic '
        'distance of the second, symbolic lengths 0..3 and symbolic unbounded context size; the '
        'report is parsed with html.parser and compared with the source.')
BOUNDS = {'quick': 'esc: |s| <= 2; rep: 4 sources (<= 3 lines, HTML-special characters, empty '
                   'lines, tabs) x lengths 0..3 x distance -3..5 x hostile message texts',
          'thorough': 'same with lengths 0..5, distance -4..8'}
OUTSIDE = 'long lines (one concrete long-line source only); more than two matches; --link URLs'
ASSUMPTIONS = ['identity position map (the map itself is the subject of C01-C04)',
               'html.parser / html.unescape as the reference decoder']

# (the shell appends a final line break to every file it reads: run_proofreader)
SOURCES = ['ab <b>&amp; "q"\n\n\tx > y\nlast line\n', 'one\ntwo & three\n', '<\n',
           'a\n' * 5 + 'zz\n',
           # backslashes that do / do not start a macro name, a macro name later in the file
           'R \\& D\n\\LaTeX \\\\ \\it\n',
           # characters that str.splitlines() takes as line ends, '\n' being the only real one
           'a\x0cb\u2028c\n\x0bd\x85e\x1c\nf\u2029\n']
# alphabet of harness esc: every character protect_html treats specially + ordinary ones;
# harness escrx proves with z3 that no other character is touched by any of its patterns
ALPHA = ['&', '"', '<', '>', '\t', ' ', '\n', 'a', ';', '#', 'é', '\r', '\u2028', "'", '\\']
HOSTILE = 'Use "this" <script>alert(1)</script> & that\ttab'
ALLOWED = {'a', 'h3', 'table', 'tr', 'td', 'span', 'br'}


class P(HTMLParser):
    def __init__(self):
        super().__init__(convert_charrefs=True)
        self.tags = []
        self.rows = []          # [num_text, content_text]
        self.cell = None
        self.spans = []         # (title, text)
        self.open_span = None
        self.bad = []

    def handle_starttag(self, tag, attrs):
        self.tags.append(tag)
        at = dict(attrs)
        if tag not in ALLOWED:
            self.bad.append('tag <%s>' % tag)
        if tag == 'span':
            if set(at) - {'style', 'title'}:
                self.bad.append('span attributes %r' % sorted(at))
            self.open_span = [at.get('title', ''), '']
        if tag == 'a' and set(at) - {'id', 'href', 'target'}:
            self.bad.append('a attributes %r' % sorted(at))
        if tag == 'tr':
            self.rows.append([None, None])
        if tag == 'td' and self.rows:
            self.cell = 0 if self.rows[-1][0] is None else 1
            self.rows[-1][self.cell] = ''

    def handle_endtag(self, tag):
        if tag == 'td':
            self.cell = None
        if tag == 'span' and self.open_span is not None:
            self.spans.append(tuple(self.open_span))
            self.open_span = None

    def handle_data(self, data):
        if self.cell is not None and self.rows:
            self.rows[-1][self.cell] += data
        if self.open_span is not None:
            self.open_span[1] += data


def norm(s):
    return s.replace(' ', ' ').replace('\xa0', ' ')


def judge(env, tex, ms, context):
    env.cmdline.context = context
    cm = list(range(1, len(tex) + 1)) + [len(tex)] * 2
    title, anchor, body, n = env.genhtml.generate_html(tex, cm, copy.deepcopy(ms), 'f.tex')
    try:
        from vf import driver as D
    except ImportError:
        return _judge_body(tex, ms, context, body)
    with D.NoTracing():
        # read-only witness of the path (no realisation: the context size stays a class)
        model = D._model()
        body, ms, context = D._peek(body, model), D._peek(ms, model), D._peek(context, model)
        return _judge_body(tex, ms, context, body)


def _judge_body(tex, ms, context, body):
    p = P()
    p.feed(body)
    if p.bad:
        return 'C16 content became markup: ' + '; '.join(p.bad[:3])
    lines = tex.split('\n')
    # main table rows (numbered) reproduce source lines
    seen = set()
    overl = False
    for num, content in p.rows:
        num = norm(num or '').strip()
        content = norm(content or '')
        if not num:
            if content.strip('\n'):
                return 'C16 unnumbered row with content %r' % content[:40]
            continue
        k = int(num)
        if not (1 <= k <= len(lines)):
            return 'C16 row numbered %d in a %d-line file' % (k, len(lines))
        want = lines[k - 1].replace('\t', ' ' * 8)
        if k in seen:
            overl = True        # second table: overlapping messages (cells hold spans only)
        if not overl or content.strip('\n') == want:
            if content.strip('\n') != want and not overl:
                return 'C16 line %d shown as %r, source line is %r' % (k, content, want)
        seen.add(k)
    # every match highlighted exactly once with the span it maps to
    for m in ms:
        o, l = m['offset'], m['length']
        exp = tex[o:o + max(1, l)]
        if exp == '\\':
            # a single backslash that starts a macro name stands for the whole name (generated
            # text such as 'LaTeX' is mapped to the backslash of \LaTeX)
            mm = re.match(r'\\[A-Za-z]+', tex[o:])
            if mm:
                exp = mm.group(0)
        exp = exp.replace('\t', ' ' * 8)
        got = [norm(t) for ttl, t in p.spans if m['message'].split()[0] in ttl.replace(' ', ' ')]
        txt = ''.join(got)
        if txt.replace('\n', '') != exp.replace('\n', ''):
            return 'C16 match %s highlights %r, its source span is %r' % (
                m['rule']['id'], txt, exp)
        for ttl, t in p.spans:
            if m['message'].split()[0] in ttl.replace(' ', ' '):
                if norm(html.unescape(ttl)).count(norm(m['message']).replace('\t', ' ' * 8)) < 1:
                    return 'C16 message text altered inside the title: %r' % ttl[:80]
        # lines around the match are shown
        first = tex.count('\n', 0, o) + 1
        for k in range(max(1, first - min(context, 50)), min(len(lines), first + min(context, 50)) + 1):
            if k not in seen and (k < len(lines) or lines[-1] != '' or True) and k <= len(
                    [x for x in lines]) and not (k == len(lines) and lines[-1] == ''):
                return 'C16 line %d (context %d of the match in line %d) is not shown' % (
                    k, context, first)
    return None


def mk(o, l, tag, msg):
    return {'offset': o, 'length': l, 'message': tag + ' ' + msg,
            'replacements': [{'value': '"<i>&'}, {'value': 'plain'}],
            'context': {'text': 'ctx <x> "y" &', 'offset': 1, 'length': 2},
            'rule': {'id': tag, 'category': {'name': 'C'}}}


def items(tier, seed):
    out = [{'h': 'esc', 'L': 2 if tier == 'quick' else 3, 'cost': 9}, {'h': 'escrx'}]
    Lm = 2 if tier == 'quick' else 5
    for si in range(len(SOURCES)):
        # the two long sources (backslashes, control characters) keep the quick geometry in the
        # thorough tier, with longer second matches
        small = tier == 'quick' or si >= 4
        for l1 in ((0, 1, 3) if small else range(Lm + 1)):
            # one item per distance of the second match: parallel over the 16 cores
            for d in range(-2 if small else -4, (3 if small else 8) + 1):
                out.append({'h': 'rep', 'src': si, 'l1': l1, 'Lm': Lm if not (si >= 4 and tier != 'quick') else 3,
                            'dmin': d, 'dmax': d, 'cost': len(SOURCES[si]),
                            # thorough: 352 items; the budget bounds the tier to about half an hour
                            # on 16 cores (items that reach it are reported as not exhausted)
                            'budget': 600 if tier == 'quick' else 75})
    out.append({'h': 'esc', 'L': 1, 'twin': True})
    out.append({'h': 'rep', 'src': 1, 'l1': 1, 'Lm': 1, 'dmin': 0, 'dmax': 1, 'twin': True})
    return out


def decode_image(img):
    s = img.replace('<br>\n', '\n').replace('&ensp;', ' ')
    return html.unescape(s)


def esc_check(genhtml, s, twin=False):
    img = genhtml.protect_html(s)
    core = img.replace('<br>\n', '')
    for bad in '<>"':
        if bad in core:
            return 'C16 protect_html(%r) = %r contains %r' % (s, img, bad)
    if re.search(r'&(?!(amp|quot|lt|gt|ensp);)', core):
        return 'C16 protect_html(%r) = %r contains a bare &' % (s, img)
    want = s.replace('\t', ' ' * 8)
    if decode_image(img) != want:
        return 'C16 protect_html(%r) = %r does not decode back to the text' % (s, img)
    return 'TWIN' if twin else None


def build(item):
    env = shellenv.Env(['--output', 'html', 'f.tex'])
    twin = bool(item.get('twin'))
    try:
        from vf import driver as D
    except ImportError:
        D = None
    if item['h'] == 'esc':
        L = item['L']

        def mk_s(i, j, k):
            return ''.join(ALPHA[x] for x in (i, j, k)[:L] if x < len(ALPHA))

        def prop(i: int, j: int, k: int):
            # index len(ALPHA) stands for "no character": strings of length 0..L
            if not (0 <= i <= len(ALPHA)) or not (0 <= j <= len(ALPHA)) or not (
                    0 <= k <= len(ALPHA)):
                return D.SKIP
            if (L < 3 and k != len(ALPHA)) or (L < 2 and j != len(ALPHA)):
                return D.SKIP
            r = esc_check(env.genhtml, mk_s(i, j, k), twin)
            return r or True

        def concrete(w):
            return esc_check(env.genhtml, mk_s(w['i'], w['j'], w['k']), twin)
        return prop, concrete
    tex = SOURCES[item['src']]
    l1 = item['l1']

    def check(o1, d, l2, ctx):
        ms = [mk(o1, l1, 'R1', HOSTILE), mk(o1 + d, l2, 'R2', 'second "msg" <b>')]
        ms.sort(key=lambda m: m['offset'])
        r = judge(env, tex, ms, ctx)
        if twin:
            return 'TWIN' if r is None else r
        return r

    def pre(o1, d, l2, ctx):
        return (0 <= o1 and o1 + max(1, l1) <= len(tex) and item['dmin'] <= d <= item['dmax']
                and 0 <= o1 + d and 0 <= l2 <= item['Lm'] and o1 + d + max(1, l2) <= len(tex)
                and ctx >= 0)

    def prop(o1: int, d: int, l2: int, ctx: int):
        if not pre(o1, d, l2, ctx):
            return D.SKIP
        return check(o1, d, l2, ctx) or True

    def concrete(w):
        if not pre(w['o1'], w['d'], w['l2'], w['ctx']):
            return None
        return check(w['o1'], w['d'], w['l2'], w['ctx'])
    return prop, concrete


def patterns_of_protect_html():
    """(pattern, replacement) pairs of the re.sub chain of the real protect_html, by AST"""
    import ast
    import inspect
    from vf import yal   # noqa: sets sys.path
    from yalafi.shell import genhtml
    fn = ast.parse(inspect.getsource(genhtml.protect_html)).body[0]
    out = []
    other = 0
    for st in fn.body:
        if isinstance(st, ast.Assign) and isinstance(st.value, ast.Call) \
                and ast.unparse(st.value.func) == 're.sub':
            out.append((ast.literal_eval(st.value.args[0]), ast.unparse(st.value.args[1])))
        elif not isinstance(st, ast.Return):
            other += 1
    return out, other


def run_escrx(item):
    """E3: every pattern of protect_html matches exactly one single character, all of them in
    ALPHA; hence (homomorphism) the image of a string is the concatenation of the images of
    its characters, and characters outside ALPHA are copied"""
    import time
    import z3
    from vf import rx
    t0 = time.time()
    pats, other = patterns_of_protect_html()
    fails, obligations, discharged, q = [], 0, 0, 0
    special = set(ALPHA[:7])
    s = z3.String('s')
    if other:
        obligations += 1
        fails.append({'witness': {'kind': 'shape'}, 'msg': 'protect_html is no longer a chain of '
                      're.sub statements (%d other statements): E3 model not applicable' % other})
    for pat, repl in pats:
        r = rx.to_z3(pat)
        for name, cond in (('matches a string that is not one character', z3.Length(s) != 1),
                           ('matches a character outside the declared special set',
                            z3.And(*[s != z3.StringVal(c) for c in special]))):
            obligations += 1
            sol = z3.Solver()
            sol.set('timeout', 30000)
            sol.add(z3.InRe(s, r), cond)
            res = str(sol.check())
            q += 1
            if res == 'unsat':
                discharged += 1
            elif res == 'sat':
                fails.append({'witness': {'kind': 'pattern', 'pat': pat,
                                          's': sol.model()[s].as_string()},
                              'msg': 'pattern %r %s' % (pat, name)})
    obligations += 1
    matched = set()
    for c in special:
        if any(re.fullmatch(pt, c) for pt, _r in pats):
            matched.add(c)
    if matched == special:
        discharged += 1
    else:
        fails.append({'witness': {'kind': 'missing', 'chars': sorted(special - matched)},
                      'msg': 'no pattern of protect_html handles %r' % sorted(special - matched)})
    return harness.smt_result(obligations, discharged, fails, q, round(time.time() - t0, 2),
                              [{'patterns': pats}], item)


def run_item(item):
    if item['h'] == 'escrx':
        return run_escrx(item)
    prop, concrete = build(item)
    return harness.run(prop, concrete, item, budget_s=harness.budget(item, 240), per_path_s=30,
                       validate=True)


def replay(rep):
    if rep['item']['h'] == 'escrx':
        # native confirmation: the offending character really is left unescaped / mangled
        env = shellenv.Env(['--output', 'html', 'f.tex'])
        w = rep['witness']
        for c in (w.get('chars') or [w.get('s', '')]):
            r = esc_check(env.genhtml, c)
            if r:
                return r
        pats, other = patterns_of_protect_html()
        return 'protect_html changed shape' if other else None
    prop, concrete = build(rep['item'])
    return concrete(rep['witness'])
