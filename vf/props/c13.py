"""C13 -- phrase replacement keeps text and position map consistent."""
import re
import time

from vf import harness, yal
from vf.yal import utils

ID = 'C13'
FUNCTIONS = ['yalafi.utils.substitute', 'yalafi.utils.replace_phrases',
             'yalafi.tex2txt.tex2txt (repl option, single and multi-language)']
RULE = ('subst/phrases: item = (text, rule list); the position list consists of free symbolic '
        'integers (arbitrary, non-monotonic); the real function runs under CrossHair and z3 '
        'proves o_pos[k] == i_pos[expected index] for ALL position values (validity query); '
        'rx: regular-language obligations on the separator pattern built by the real code.')
BOUNDS = {'quick': 'texts x rule lists of the catalogue (text length <= 60, 1-4 rules); '
                   'positions unbounded integers', 'thorough': 'same catalogue + generated '
                   'texts (seeded) x all rule lists'}
OUTSIDE = 'texts/rules outside the catalogue; rules without & (behaviour not stated)'
ASSUMPTIONS = ['Python re engine trusted for match finding in harness subst (the reference '
               'matcher of harness phrases is independent of re)',
               'reference word matcher written from the property text']

TEXTS = [
    'so dass wir so  dass\tes so\ndass und so \n dass aber so\n\ndass nicht. Also dass so',
    'z.B. das ist z.B.\nz.B. und z. B. sowie xz.B. z.B.x',
    'A B C A B C A  B\nC A\n\nB C',
    'aa aaa aaaa a',
    'Ünï ж Ünï жж Ünï',
    'x so dass',
    'so dass',
    'et al. and et al., et  al.et al.',
    'a-b a -b a- b (a) [a] a_b a1 1a',
    'one two\n three  two\t\tthree one two three',
    'word. next? $x$ C-C-C. D-D-D',
    'wir so\ndass es so\t dass z.B.\nz.B.',
    'et\tal. one\n\ttwo   three',
    'loci.e. and i.e. max-ray x-ray tube, I don\'t sodon\'t',
    'so  dass so\n   dass one  two\n three A  B\tC',
    'Die R&D Abteilung, R und D, Q&A &c. und AT&T R& D',
    'so\xa0dass wir z.\u202fB. so \xa0 dass und z.\xa0\nB. aber so\xa0\n\u202f\ndass',
    'je 3 cm und 3 cmx, cm 3 und cm 34, x3 cm so dass 3\ncm.',
]
RULES = [
    ['so dass & sodass'],
    ['so dass & so that it is'],
    ['so dass & '],
    ['z.B. & zum Beispiel', 'so dass & sodass'],
    ['A B C & X', 'X & Y Z W', '# only a comment', '   ', '& nothing', 'B C & # c'],
    ['aa & b', 'b & aaaa', 'a & aa'],
    ['Ünï ж & Uni z', 'Uni & Ünï Ünï'],
    ['et al. & and others', 'and & &'],
    ['a & alpha', '(a) & [b]', '-b & +c+'],
    ['one two three & 1 2', 'two three & 23 # comment', 'two & 2'],
    ['C-C-C. & E', '$x$ & y', 'word. & w'],
    ['dass & dass dass', 'so & so so'],
    ['x & xx', 'xx & x'],
    ['so dass & so_dass', 'et al. & et_al.', 'one two three & one-two-three'],
    ['A B C & X Y Z', 'z.B. & z.B.', 'two three & 2 3 4 5 6'],
    ['i.e. & that is', 'x-ray & XRAY', "don't & do not"],
    ['z. B. & zum Beispiel', 'so dass & sodass'],
    # only a '&' that stands alone separates the two sides
    ['R&D & Forschung', '&c. & etc.', 'Q&A & Fragen & Antworten', 'R& D & X'],
    # lines without any '&': either ignored or a phrase with an empty right-hand side (see ref_parse)
    ['3 cm', 'cm 3'],
    ['so dass', '3 cm # c', 'und & and'],
]


# ---------------------------------------------------------------- reference (no regex)

def _isw(c):
    return c.isalnum() or c == '_'


def ref_parse(line, bare='ignore'):
    i = line.find('#')
    if i >= 0:
        line = line[:i]
    ws = line.split()
    if '&' not in ws:
        # behaviour without '&' is not stated.  Two readings are accepted: the line is ignored, or
        # it is a phrase with an empty right-hand side -- then under the stated matching rules
        if bare == 'ignore' or not ws:
            return None
        return ws, ''
    k = ws.index('&')
    if k == 0:
        return None          # no left-hand side: ignored
    return ws[:k], ' '.join(ws[k + 1:])


def ref_match_at(txt, i, words):
    """end offset of a match of the phrase at i, or -1"""
    j = i
    for n, w in enumerate(words):
        if n:
            k = j
            nl = 0
            # "arbitrary space in the plain text that does not break the paragraph" (README):
            # every white-space character, incl. the (narrow) no-break spaces from ~ and \,
            while k < len(txt) and txt[k].isspace():
                if txt[k] == '\n':
                    nl += 1
                k += 1
            if k == j or nl > 1:
                return -1
            j = k
        if not txt.startswith(w, j):
            return -1
        j += len(w)
    first, last = words[0][0], words[-1][-1]
    if first.isalpha() and i > 0 and _isw(txt[i - 1]):
        return -1
    if last.isalpha() and j < len(txt) and _isw(txt[j]):
        return -1
    return j


def ref_apply(txt, idx, words, repl):
    """one rule on (text, index list); idx[k] = index into the ORIGINAL position list"""
    o_txt, o_idx = '', []
    i = last = 0
    while i < len(txt):
        j = ref_match_at(txt, i, words)
        if j > i:
            o_txt += txt[last:i] + repl
            o_idx += idx[last:i]
            ph = idx[i:j]
            o_idx += [ph[min(k, len(ph) - 1)] for k in range(len(repl))]
            i = last = j
        else:
            i += 1
    return o_txt + txt[last:], o_idx + idx[last:]


def has_bare(lines):
    return any(ref_parse(l) is None and ref_parse(l, 'delete') is not None for l in lines)


def ref_replace(txt, lines, bare='ignore'):
    idx = list(range(len(txt)))
    for lin in lines:
        p = ref_parse(lin, bare)
        if p is None:
            continue
        txt, idx = ref_apply(txt, idx, p[0], p[1])
    return txt, idx


def ref_subst(txt, expr, repl):
    idx = list(range(len(txt)))
    o_txt, o_idx, last = '', [], 0
    for m in re.finditer(expr, txt):
        a, b = m.start(0), m.end(0)
        if a == b:
            continue
        o_txt += txt[last:a] + repl
        o_idx += idx[last:a]
        ph = idx[a:b]
        o_idx += [ph[min(k, len(ph) - 1)] for k in range(len(repl))]
        last = b
    return o_txt + txt[last:], o_idx + idx[last:]


# ---------------------------------------------------------------- harnesses

SUBST = [(r'\bso\b', 'sooo'), (r'a+', 'b'), (r'a+', ''), (r'(?:so|dass)', 'XYZ12'),
         (r'\b[^\W0-9_]\b', 'letter'), (r'x*', 'y'), (r'[ \t]*\n[ \t]*', ' '), (r'\.', '...')]


def items(tier, seed):
    out = []
    for ti, t in enumerate(TEXTS):
        for si in range(len(SUBST)):
            out.append({'h': 'subst', 't': ti, 's': si})
        for ri in range(len(RULES)):
            out.append({'h': 'phrases', 't': ti, 'r': ri})
    if tier != 'quick':
        import random
        rnd = random.Random(seed)
        alpha = ['so', 'dass', 'a', 'B', ' ', ' ', '\n', '\t', '.', 'x', 'Ü', '-', '1', '_']
        for n in range(120):
            t = ''.join(rnd.choice(alpha) for _ in range(rnd.randint(3, 30)))
            for ri in rnd.sample(range(len(RULES)), 4):
                out.append({'h': 'phrases', 'text': t, 'r': ri})
    for i in range(4):
        out.append({'h': 'filter', 'i': i})
    out.append({'h': 'rx'})
    out.append({'h': 'subst', 't': 0, 's': 0, 'twin': True})
    out.append({'h': 'phrases', 't': 0, 'r': 0, 'twin': True})
    return out


def _text(item):
    return item['text'] if 'text' in item else TEXTS[item['t']]


def _judge(o_txt, o_pos, e_txt, e_idx, pos, D=None, twin=False):
    if len(o_txt) != len(o_pos):
        return 'C13 lengths differ: text %d, positions %d' % (len(o_txt), len(o_pos))
    if o_txt != e_txt:
        return 'C13 text %r, expected %r' % (o_txt[:80], e_txt[:80])
    if twin:
        e_idx = [min(i + 1, len(pos) - 1) for i in e_idx]
    if D is None:
        for k, i in enumerate(e_idx):
            if o_pos[k] != pos[i]:
                return ('C13 output char %d (%r) carries position %r, expected the position of '
                        'input char %d (%r)' % (k, o_txt[k], o_pos[k], i, pos[i]))
        return None
    import z3
    conj = [D.z3var(o_pos[k]) == D.z3var(pos[i]) for k, i in enumerate(e_idx)]
    if conj and not D.must_hold(z3.And(*conj)):
        return D.Fail('C13 position bookkeeping differs from the reference',
                      D.counter_witness(z3.And(*conj)))
    return None


def build(item):
    h = item['h']
    twin = bool(item.get('twin'))
    if h in ('subst', 'phrases'):
        txt = _text(item)
        n = len(txt)
        alt = None
        if h == 'subst':
            expr, repl = SUBST[item['s']]

            def real(pos):
                return utils.substitute(txt, pos, expr, repl)
            e_txt, e_idx = ref_subst(txt, expr, repl)
        else:
            lines = RULES[item['r']]

            def real(pos):
                return utils.replace_phrases(txt, pos, list(lines))
            e_txt, e_idx = ref_replace(txt, lines)
            if has_bare(lines):
                alt = ref_replace(txt, lines, 'delete')

        def concrete(w):
            # non-monotonic concrete positions from the witness
            pos = [w.get('p%d' % i, 1000 + 7 * i) for i in range(n)]
            o_txt, o_pos = real(list(pos))
            r = _judge(o_txt, o_pos, e_txt, e_idx, pos, None, twin)
            if r is not None and alt is not None and not twin:
                r = _judge(o_txt, o_pos, alt[0], alt[1], pos, None, twin)
            return r

        def prop():
            from vf import driver as D
            pos = [D.fresh_int('p%d' % i) for i in range(n)]
            o_txt, o_pos = real(list(pos))
            with D.NoTracing():
                r = _judge(D._peek(o_txt, None), o_pos, e_txt, e_idx, pos, D, twin)
                if r is not None and alt is not None and not twin:
                    r = _judge(D._peek(o_txt, None), o_pos, alt[0], alt[1], pos, D, twin)
                if r is not None:
                    # let the solver pick positions that show the difference
                    return r
                D.EXTRA['validated'] += 1
            return True
        return prop, concrete
    raise KeyError(h)


FILTER_DOCS = [
    ('Wir sehen, so dass es gilt. Und so\ndass z.B. hier. \\textbf{so} dass', ['so dass & sodass',
     'z.B. & zum Beispiel']),
    ('A \\footnote{so dass B} C so  dass', ['so dass & so that it is']),
    ('so dass\n\nso\n\ndass so %c\ndass', ['so dass & X']),
    ('\\usepackage[german]{babel}Wir so dass \\foreignlanguage{english}{so dass is it not really} '
     'so dass', ['so dass & sodass']),
]


def run_item(item):
    if item['h'] == 'rx':
        return run_rx(item)
    if item['h'] == 'filter':
        return run_filter(item)
    prop, concrete = build(item)
    return harness.run(prop, concrete, item, budget_s=harness.budget(item, 60), validate=True)


def run_filter(item):
    """the composition inside tex2txt: replacements act on the filter's text and map
    (single text; main-language parts in multi-language mode); judged natively against the
    reference applied to the run without replacements"""
    t0 = time.time()
    r = replay_filter(item)
    fails = [{'witness': {}, 'msg': r}] if r else []
    return harness.smt_result(1, 0 if r else 1, fails, 0, 0.0, [FILTER_DOCS[item['i']][0]], item)


def replay_filter(item):
    doc, rules = FILTER_DOCS[item['i']]
    ml = 'babel' in doc
    opts = {'pack': '*', 'lang': 'de-DE' if ml else None}
    base, _d, _e = yal.run_native(doc, yal.mkopts(opts), ml)
    res, _d, _e = yal.run_native(doc, yal.mkopts(dict(opts, repl=rules)), ml)
    from vf.offrun import flatten
    fb, fr = flatten(base), flatten(res)
    if [x[0] for x in fb] != [x[0] for x in fr]:
        return 'C13 parts changed by replacement'
    for (lab, bp, bcm), (_l, rp, rcm) in zip(fb, fr):
        if ml and not lab.startswith('de-DE'):
            e_txt, e_idx = bp, list(range(len(bp)))
        else:
            e_txt, e_idx = ref_replace(bp, rules)
        r = _judge(rp, rcm, e_txt, e_idx, bcm)
        if r:
            return r + ' (part %s of %r)' % (lab, doc)
    return None


def run_rx(item):
    """E3: the inter-word separator built by the real replace_phrases never matches across a
    blank line, matches only blanks, never the empty string; \\b is added exactly at letters"""
    import z3
    from vf import rx
    t0 = time.time()
    captured = []
    real_sub = utils.substitute

    def cap(i_txt, i_pos, expr, repl):
        captured.append(expr)
        return i_txt, i_pos
    utils.substitute = cap
    try:
        utils.replace_phrases('x', [0], ['ab cd & x', '.b c. & y', 'é ж & z', '1a a1 & q'])
    finally:
        utils.substitute = real_sub
    fails = []
    obligations = 0
    discharged = 0
    queries = 0
    exp = [(r'\bab', 'cd\\b', True, True), (re.escape('.b'), re.escape('c.'), False, False),
           ('\\b' + re.escape('é'), re.escape('ж') + '\\b', True, True),
           (re.escape('1a'), re.escape('a1'), False, False)]
    seps = []
    for expr, (pre, suf, _b0, _b1) in zip(captured, exp):
        obligations += 1
        if expr.startswith(pre) and expr.endswith(suf) and len(expr) > len(pre) + len(suf):
            seps.append(expr[len(pre):len(expr) - len(suf)])
            discharged += 1
        else:
            fails.append({'witness': {'expr': expr}, 'msg': 'pattern %r: word boundaries are '
                          'not added exactly where the phrase begins/ends with a letter' % expr})
    s = z3.String('s')
    A = z3.Full(z3.ReSort(z3.StringSort()))
    nl = z3.Re(z3.StringVal('\n'))
    blanks = z3.Plus(rx.space_class())
    sp = rx.space_class(exclude='\n')       # any white space except the line break
    for sep in sorted(set(seps)):
        try:
            r = rx.to_z3(sep)
        except rx.Unsupported as e:
            obligations += 1
            continue
        for name, cond in (('matches across a blank line',
                            z3.InRe(s, z3.Concat(A, nl, A, nl, A))),
                           ('matches something that is not blank space',
                            z3.Not(z3.InRe(s, blanks))),
                           ('matches the empty string', s == z3.StringVal(''))):
            obligations += 1
            sol = z3.Solver()
            sol.set('timeout', 60000)
            sol.add(z3.InRe(s, r), cond)
            res = str(sol.check())
            queries += 1
            if res == 'unsat':
                discharged += 1
            elif res == 'sat':
                wit = sol.model()[s].as_string()
                fails.append({'witness': {'sep': sep, 's': wit},
                              'msg': 'separator %r %s: %r' % (sep, name, wit)})
        # the other direction: every white-space run with at most one line break IS matched
        obligations += 1
        ok_runs = z3.Union(z3.Plus(sp), z3.Concat(z3.Star(sp), nl, z3.Star(sp)))
        sol = z3.Solver()
        sol.set('timeout', 60000)
        sol.add(z3.InRe(s, ok_runs), z3.Not(z3.InRe(s, r)))
        res = str(sol.check())
        queries += 1
        if res == 'unsat':
            discharged += 1
        elif res == 'sat':
            wit = sol.model()[s].as_string()
            fails.append({'witness': {'sep': sep, 's': wit, 'kind': 'missing'},
                          'msg': 'separator %r does not match the blank run %r' % (sep, wit)})
    return harness.smt_result(obligations, discharged, fails, queries,
                              round(time.time() - t0, 2), [{'separators': seps}], item)


def _capture_patterns():
    captured = []
    real_sub = utils.substitute

    def cap(i_txt, i_pos, expr, repl):
        captured.append(expr)
        return i_txt, i_pos
    utils.substitute = cap
    try:
        utils.replace_phrases('x', [0], ['ab cd & x', '.b c. & y', 'é ж & z', '1a a1 & q'])
    finally:
        utils.substitute = real_sub
    return captured


def replay_rx(w):
    """native confirmation of a solver witness with Python's own re engine"""
    pats = _capture_patterns()
    if 'expr' in w:
        return ('pattern %r lacks/has a wrong word boundary' % w['expr']) if w['expr'] in pats \
            else None
    s = w['s']
    pat = pats[0]
    m = re.fullmatch(r'\\bab(.*)cd\\b', pat, re.S)
    sep = m.group(1) if m else w['sep']
    hit = re.fullmatch(sep, s) is not None
    if w.get('kind') == 'missing':
        return None if hit else 'separator %r does not match the blank run %r' % (sep, s)
    bad = (s.count('\n') > 1) or (s.strip(' \t\n') != '') or s == ''
    return ('separator %r matches %r' % (sep, s)) if (hit and bad) else None


def replay(rep):
    item = rep['item']
    if item['h'] == 'rx':
        return replay_rx(rep['witness'])
    if item['h'] == 'filter':
        return replay_filter(item)
    prop, concrete = build(item)
    return concrete(rep['witness'])
