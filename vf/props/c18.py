"""C18 -- extraction and inclusion tracking find exactly the included files, each once."""
from vf import family, harness, oracle, shellenv, sketch, yal
from vf.family import T

ID = 'C18'
FUNCTIONS = ['yalafi.shell.shell (--include work list: statements `def skip_file` .. '
             '`cmdline.file = done`, sliced by AST and executed as a function)',
             'yalafi.parser.Parser.init_extractions', 'yalafi.parser.Parser.parse (extract)',
             'yalafi.tex2txt.tex2txt (extr option)']
RULE = ('wl: bounded model check of the real work-list code: the inclusion relation between n '
        'files is a symbolic bit vector (every graph incl. cycles, self-inclusion), names with '
        'and without .tex / with inner dots, duplicates on the command line, a skip pattern; '
        'result must equal the reference BFS closure and the loop must stop within n(n+1) '
        'file reads.  ex: extraction lists over documents with a symbolic hole in the first '
        'mandatory argument and listed macros in comments / skipped regions / verbatim.')
BOUNDS = {'quick': 'wl: n <= 3 files x 5 command-line variants; ex: 14 documents, hole <= 2 chars',
          'thorough': 'wl: n = 4; ex: hole <= 3 chars'}
OUTSIDE = 'the file system (myopen stubbed: file content = its inclusion list); > 4 files'
ASSUMPTIONS = ['tex2txt on a file is stubbed by the symbolic inclusion relation in harness wl '
               '(the real extraction is the subject of harness ex)']

NAMES = ['a.tex', 'sec1.2.tex', 'c.tex', 'd.v2.tex']
VARIANTS = [
    {'file': [0], 'skip': None},
    {'file': [0, 1], 'skip': None},
    {'file': [0, 0, 1], 'skip': None},
    {'file': [0], 'skip': 'c\\.tex'},
    {'file': [1, 0], 'skip': '.*1\\.2.*'},
    # alternations: "matching" means the whole name matches the expression
    {'file': [0, 2], 'skip': 'a|c\\.tex'},
    {'file': [1, 0], 'skip': 'sec.*|tex'},
]


class _Cmd:
    pass


class _FP:
    def __init__(self, f):
        self.f = f

    def read(self):
        return self.f

    def close(self):
        pass


def ref_closure(n, bits, files, skip):
    import re
    names = NAMES[:n]

    def skipped(f):
        # property level: a file "matches --skip" when the whole name matches
        return bool(skip and re.fullmatch(skip, f))
    todo = [names[i] for i in files]
    done = []
    while todo:
        f = todo.pop(0)
        if f in done or skipped(f):
            continue
        done.append(f)
        i = names.index(f)
        for j in range(n):
            if bits[i][j] and names[j] not in done + todo and not skipped(names[j]):
                todo.append(names[j])
    return done


def build_wl(item):
    n = item['n']
    var = VARIANTS[item['var']]
    style = item['style']          # how the inclusion list names a file: 0 'x', 1 'x.tex'
    twin = bool(item.get('twin'))
    worklist, desc = shellenv.worklist_function()
    names = NAMES[:n]

    def run(adj):
        bits = [[(adj >> (i * n + j)) & 1 for j in range(n)] for i in range(n)]
        cmd = _Cmd()
        cmd.file = [names[i] for i in var['file'] if i < n]
        cmd.include = True
        cmd.skip = var['skip']
        cmd.encoding = 'utf-8'
        steps = [0]

        class T2T:
            @staticmethod
            def myopen(f, encoding):
                if f not in names:
                    raise FileNotFoundError('the shell tries to open %r (known files: %r)'
                                            % (f, names))
                return _FP(f)

            @staticmethod
            def tex2txt(tex, opts):
                steps[0] += 1
                if steps[0] > n * (n + 1):
                    raise RuntimeError('no termination: more than n(n+1) file reads')
                i = names.index(tex)
                out = ''
                for j in range(n):
                    if bits[i][j]:
                        nm = names[j][:-4] if (style == 0 or (style == 2 and j % 2)) else names[j]
                        out += nm + '\n'
                return out, []
        try:
            done = worklist(cmd, T2T, None)
        except Exception as ex:      # noqa: what the user would see as a crash / wrong file
            return 'C18 --include on graph %r, files %r: %s: %s' % (
                bits, [names[i] for i in var['file'] if i < n], type(ex).__name__, ex)
        exp = ref_closure(n, bits, [i for i in var['file'] if i < n], var['skip'])
        if twin:
            exp = exp + ['x']
        if list(done) != exp or cmd.file != exp:
            return 'C18 --include on graph %r, files %r, skip %r: checked %r, expected %r' % (
                bits, cmd.file if False else [names[i] for i in var['file'] if i < n],
                var['skip'], list(done), exp)
        return None

    def prop(adj: int):
        from vf import driver as D
        if not (0 <= adj < 2 ** (n * n)):
            return D.SKIP
        return run(adj) or True

    def concrete(w):
        return run(w['adj']) if 0 <= w['adj'] < 2 ** (n * n) else None
    return prop, concrete


# ---------------------------------------------------------------- extraction

A, B = T('Alpha'), T('Beta')


def ex_docs():
    """(name, spec with @H@, extr option, hole class)"""
    def X(n, name='foo'):
        return ['footnote', n, name]
    return [
        ('unknown_macro', ['cat', A, ' ', X(T('x@H@')), ' ', B, ' ', X(T('Second one')), ' end'
                           if False else ' ', A], 'foo', 'WORD'),
        ('hidden_like', ['cat', A, ' ', X(T('k@H@')), ' ', B], 'foo', 'NAME'),
        ('section', ['cat', ['footnote', T('Title @H@'), 'section'], '\n', A, '\n',
                     ['footnote', T('Sub'), 'subsection']], 'section,subsection', 'WORD'),
        ('input', ['cat', A, ' ', ['footnote', T('ch@H@'), 'input'], ' ', B, ' ',
                   ['footnote', T('two.tex'), 'include']], 'include,input', 'NAME'),
        ('in_comment', ['cat', A, ' ', X(T('In')), ' ', ['comment', ' \\foo{no@H@}'], B], 'foo',
         'WORD'),
        ('in_skip', ['cat', A, '\n', ['skip_region', '\\foo{no@H@}'], X(T('Yes')), ' ', B], 'foo',
         'WORD'),
        # the skipped region is the very first thing of the text (token number 0)
        ('skip_first', ['cat', ['skip_region', '\\foo{no@H@}'], X(T('Yes')), ' ', B], 'foo', 'WORD'),
        ('skip_first_input', ['cat', ['skip_region', '\\input{pre@H@}'], A, ' ',
                              ['footnote', T('body'), 'input']], 'include,input', 'NAME'),
        ('in_ltskip', ['cat', A, ' ', ['ltskip', ['cat', T('\\foo{no@H@}')]], ' ', X(T('Yes'))],
         'foo', 'WORD'),
        ('nested_arg', ['cat', A, ' ', ['unknown', 'textbf', ['cat', T('b '), X(T('In@H@'))]], ' ',
                        B], 'foo', 'WORD'),
        ('two_lists', ['cat', X(T('F@H@')), ' ', ['footnote', T('G'), 'goo'], ' ', X(T('H'))],
         'foo,goo', 'WORD'),
        ('unlisted', ['cat', A, ['footnote', T('not@H@ me')], ' ', X(T('Me')), ' ',
                      ['footnote', T('cap'), 'caption']], 'foo', 'WORD'),
    ]


# listed macros with several mandatory arguments: the FIRST one is extracted
MULTI = [
    ('LTalter', '\\LTalter{First}{Second} x \\LTalter{Third}{Fourth}', 'LTalter',
     ['First', 'Third']),
    ('newtheorem', 'A \\newtheorem{thm}{Theorem} B', 'newtheorem', ['thm']),
    ('textcolor', 'A \\textcolor{red}{Text} B', 'textcolor', ['red']),
    ('href', 'A \\href{url}{Text} B \\href[o]{u2}{T2}', 'href', ['url', 'u2']),
    ('framebox', 'A \\framebox[1cm][l]{Boxed} B', 'framebox', ['Boxed']),
    ('foreign', 'A \\foreignlanguage{german}{Text} B', 'foreignlanguage', ['german']),
    ('mixed', 'A \\LTalter{One}{no} \\section[s]{Two} \\zz{Three}{no} \\cite{no}', 'LTalter,section,zz',
     ['One', 'Two', 'Three']),
    ('verbatim', 'A \\begin{verbatim}\\foo{no}\\end{verbatim} \\verb|\\foo{no}| \\foo{Yes}', 'foo',
     ['Yes']),
    # markers of a skipped region may carry a remark on their comment line (README: the comment
    # only has to START with the marker)
    ('skip_remark', 'A \\foo{a}\n%%% LT-SKIP-BEGIN (old part)\n\\foo{no}\n%%% LT-SKIP-END of old part\n'
                    'B \\foo{b}\n%%% LT-SKIP-BEGIN\n\\foo{no}\n%%% LT-SKIP-END   \nC \\foo{c}', 'foo',
     ['a', 'b', 'c']),
    ('skip_remark2', '\\foo{a}\n%%% LT-SKIP-BEGIN\n\\foo{no}\n%%% LT-SKIP-END% x\n\\foo{b}', 'foo',
     ['a', 'b']),
]


def build_ex(item):
    name, spec, extr, cls = next(d for d in ex_docs() if d[0] == item['doc'])
    if not name.startswith('skip_first'):
        # (skip_first*: the skipped region has to be the very first token of the text)
        spec = ['cat', family.PREAMBLE, spec]
    pre, post = sketch.split(spec)
    opts = dict(family.OPTS, extr=extr)
    twin = bool(item.get('twin'))

    def orc(h0, doc, flat, diags):
        node = family.build(sketch.subst(spec, h0))
        lab, plain, cm = flat[0]
        n2 = family.docs.N(node.src, [], node.det, node.spans, node.sws, [], node.hid, False)
        # in extraction mode only detached flows of the LISTED macros exist
        listed = ['\\' + x for x in extr.split(',')]
        n2.det = [f for f, nm in zip(node.det, _det_names(node)) if nm in listed]
        fails = oracle.check(n2, plain, cm, want_mono=False)
        if twin:
            return 'TWIN'
        return ('C18 extraction %r: %s' % (extr, fails[0][1])) if fails else None
    return sketch.make(pre, post, cls, item['L'], opts, orc, lmin=0, twin=False)


def _det_names(node):
    """macro name of every detached flow, from the source text in front of its first event"""
    out = []
    src = node.src
    for f in node.det:
        o = next((e[1] for e in f if e[0] in ('C', 'S', 'G')), 0)
        k = src.rfind('\\', 0, o)
        # walk back to the macro that owns the argument: last backslash before the opening brace
        while k > 0 and not src[k + 1:k + 2].isalpha():
            k = src.rfind('\\', 0, k)
        j = k + 1
        while j < len(src) and src[j].isalpha():
            j += 1
        out.append(src[k:j])
    return out


def multi_check(i, twin=False):
    name, doc, extr, exp = MULTI[i]
    (plain, cm), diags, err = yal.run_native(doc, yal.mkopts({'pack': '*', 'extr': extr}))
    got = plain.split()
    if twin:
        exp = exp + ['x']
    if got != exp:
        return 'C18 extraction %r of %r gives %r, first mandatory arguments are %r' % (
            extr, doc, got, exp)
    for k, c in enumerate(plain):
        if not c.isspace() and doc[cm[k] - 1] != c:
            return 'C18 extracted character %r mapped to %r' % (c, doc[cm[k] - 1])
    return None


def items(tier, seed):
    out = []
    for n in ((2, 3) if tier == 'quick' else (2, 3, 4)):
        for v in range(len(VARIANTS)):
            for style in (0, 1, 2):
                if n == 4 and style == 1:
                    continue
                out.append({'h': 'wl', 'n': n, 'var': v, 'style': style, 'cost': 4 ** n,
                            'budget': 3000 if n == 4 else 300})
    for d in ex_docs():
        out.append({'h': 'ex', 'doc': d[0], 'L': 2 if tier == 'quick' else 3, 'cost': 3})
    for i in range(len(MULTI)):
        out.append({'h': 'multi', 'i': i})
    out.append({'h': 'wl', 'n': 2, 'var': 0, 'style': 0, 'twin': True})
    out.append({'h': 'multi', 'i': 0, 'twin': True})
    return out


def run_item(item):
    if item['h'] == 'multi':
        r = multi_check(item['i'], bool(item.get('twin')))
        return harness.smt_result(1, 0 if r else 1, [{'witness': {}, 'msg': r}] if r else [], 0,
                                  0.0, [MULTI[item['i']][1]], item)
    prop, concrete = (build_wl if item['h'] == 'wl' else build_ex)(item)
    return harness.run(prop, concrete, item, budget_s=harness.budget(item, 200), per_path_s=30,
                       validate=(item['h'] == 'wl'))


def replay(rep):
    item = rep['item']
    if item['h'] == 'multi':
        return multi_check(item['i'])
    prop, concrete = (build_wl if item['h'] == 'wl' else build_ex)(item)
    return concrete(rep['witness'])
