"""C01 -- every output character has exactly one source position, inside the source."""
from vf import harness, offrun, skeletons, srcmodel

ID = 'C01'
FUNCTIONS = ['yalafi.tex2txt.tex2txt', 'yalafi.parser.Parser.*', 'yalafi.mathparser.*',
             'yalafi.utils.get_txt_pos', 'yalafi.utils.get_txt_pos_ml', 'yalafi.utils.latex_error',
             'yalafi.utils.replace_phrases', 'yalafi.scanner.Scanner.scan (on the skeleton)']
RULE = ('E1-off: item = (skeleton S, options, multi_language); symbolic d = length of a comment '
        'line before S, e = length of a comment after S; obligations len(plain)==len(map) and '
        '1<=p<=d+|S|+e discharged by z3 per path.')
BOUNDS = {'quick': 'skeleton catalogue (well-formed + faulty) x 10 option sets (covering slice) '
                   'x ml in {F,T}; + seeded slice of truncations/deletions; d in {0} U [2,inf), '
                   'e >= 0 unbounded',
          'thorough': 'as quick with the full product skeleton x option set x ml and 6 '
                      'truncations/deletions per skeleton'}
OUTSIDE = 'documents outside the skeleton family; prefixes/suffixes other than comment text'
ASSUMPTIONS = ['scanner re-basing (prechecked concretely per skeleton, linked natively per path)',
               'stderr formatting stubbed (numbers kept as terms)',
               'P and Q are comment text; other surroundings are covered by the skeleton family']

# partition of the first character of the fully symbolic string (union = every code point)
ANYPARTS = [[(0, 0x20)], [(0x21, 0x2C)], [(0x2D, 0x2D), (0x60, 0x60)], [(0x2E, 0x5B)],
            [(0x5C, 0x5C)], [(0x5D, 0x5F), (0x61, 0xFF)], [(0x100, 0x10FFFF)]]


def items(tier, seed):
    from vf import sketch
    assert sketch.covers('ANY', ANYPARTS)
    out = []
    docs = [(n, s, o) for n, (s, o) in skeletons.WELL.items()]
    docs += [('F:' + n, s, o) for n, (s, o) in skeletons.FAULTY.items()]
    nos = len(skeletons.OPTION_SETS)
    for i, (name, S, o) in enumerate(docs):
        if tier == 'quick':
            sel = [0, 1 + (i + seed) % (nos - 1)]
        else:
            sel = range(nos)
        for j in sel:
            oo = dict(skeletons.OPTION_SETS[j])
            if o.get('pack') and 'pack' not in oo:
                oo['pack'] = o['pack']
            if o.get('dcls') and 'dcls' not in oo:
                oo['dcls'] = o['dcls']
            for ml in ((False, True) if (tier != 'quick' or (i + j) % 3 == 0) else (False,)):
                if ml and oo.get('unkn'):
                    continue
                out.append({'h': 'off', 'name': name, 'S': S, 'opts': oo, 'ml': ml})
    # phrase replacement (repl): rules derived from the skeleton's own plain text so that
    # the last word gets a longer, the first an empty and a middle pair a shorter replacement
    import re
    from vf import yal
    for i, (name, S, o) in enumerate(docs):
        if tier == 'quick' and (i + seed) % 2:
            continue
        try:
            (plain, _cm), _d, _e = yal.run_native(S, yal.mkopts(o))
        except SystemExit:
            continue
        words = re.findall(r'[^\W\d_]+', plain)
        if len(words) < 2:
            continue
        rules = [words[-1] + ' & ' + words[-1] + ' and a considerably longer replacement',
                 words[0] + ' & ', '# comment']
        if len(words) > 3:
            rules.append(words[1] + ' ' + words[2] + ' & x')
        oo = dict(o, repl=rules)
        for ml in (False, True):
            out.append({'h': 'off', 'name': 'repl:' + name, 'S': S, 'opts': oo, 'ml': ml})
    per = 2 if tier == 'quick' else 6
    for name, S, o in skeletons.malformed(seed, per):
        out.append({'h': 'off', 'name': name, 'S': S, 'opts': dict(o), 'ml': False})
        if tier != 'quick':
            out.append({'h': 'off', 'name': name, 'S': S, 'opts': dict(o, lang='de'), 'ml': True})
    for n in range(0, 4):
        out.append({'h': 'nums', 'n': n})
    # the whole filter on every string of <= N arbitrary characters (all code points)
    for n in range(0, 3 if tier == 'quick' else 4):
        for ml in (False, True):
            if n < 3:
                out.append({'h': 'any', 'N': n, 'ml': ml, 'cost': 30 ** n, 'budget': 900})
            else:
                # partitioned by the first character: parallel work items
                for k in range(len(ANYPARTS)):
                    out.append({'h': 'any', 'N': n, 'ml': ml, 'part': k, 'cost': 30 ** n,
                                'budget': 1500})
    # vacuity twins: the same harness with the upper bound lowered by one must be refuted
    out.append({'h': 'off', 'name': 'twin', 'S': 'A $x', 'opts': {}, 'ml': False, 'twin': True})
    out.append({'h': 'off', 'name': 'twin2', 'S': 'A B', 'opts': {}, 'ml': False, 'twin': True})
    return out


def build_nums(item):
    """command line: the real write_output on a text of n characters with a symbolic position
    list: the --nums file has exactly one line per character written to standard output, and
    every line is the decimal number (negative entries: number followed by +)"""
    import io
    from vf import yal
    n = item['n']
    text = 'abcde'[:n]

    def run(vals):
        ft, fn = io.StringIO(), io.StringIO()
        yal.tex2txt.write_output((text, list(vals)), ft, fn)
        lines = fn.getvalue().split('\n')
        if ft.getvalue() != text or len(lines) != n + 1 or lines[-1] != '':
            return 'C01 --nums: %d characters written, %d lines of numbers' % (
                len(ft.getvalue()), len(lines) - 1)
        for v, ln in zip(vals, lines):
            if ln != (str(abs(v)) + ('+' if v < 0 else '')):
                return 'C01 --nums: entry %r written as %r' % (v, ln)
        return None

    def concrete(w):
        return run([w.get('p%d' % i, 1) for i in range(n)])

    def prop():
        from vf import driver as D
        vals = [D.fresh_int('p%d' % i) for i in range(n)]
        for v in vals:
            if not (-1000 <= v <= 1000):
                return D.SKIP
        ft, fn = io.StringIO(), io.StringIO()
        yal.tex2txt.write_output((text, list(vals)), ft, fn)
        with D.NoTracing():
            m = D._model()
            cv = [D._peek(v, m) for v in vals]
            out = D._peek(fn.getvalue(), m)
            lines = out.split('\n')
            if len(lines) != n + 1:
                return D.Fail('C01 --nums: %d lines for %d characters' % (len(lines) - 1, n),
                              {'p%d' % i: c for i, c in enumerate(cv)})
        return True
    return prop, concrete


def build_any(item):
    from vf import sketch
    n = item['N']

    def orc(h0, doc, flat, diags):
        for lab, plain, cm in flat:
            if len(plain) != len(cm):
                return 'C01 length: len(plain)=%d len(map)=%d for %r' % (len(plain), len(cm), doc)
            for k, p in enumerate(cm):
                if not (1 <= p <= len(doc)):
                    return 'C01 range: map[%d]=%d not in 1..%d for %r' % (k, p, len(doc), doc)
        return None
    fr = ANYPARTS[item['part']] if 'part' in item else None
    return sketch.make('', '', 'ANY', n, {'lang': 'de'} if item['ml'] else {}, orc, ml=item['ml'],
                       lmin=n, splice=False, accept_exit=True, first_ranges=fr)


def build(item):
    if item['h'] == 'nums':
        return build_nums(item)
    if item['h'] == 'any':
        return build_any(item)
    S = item['S']
    pre_ok, suf_ok = srcmodel.rebase_ok(S, nosp=bool(item['opts'].get('nosp')))
    return offrun.make(S, item['opts'], item['ml'], None, pre_ok, suf_ok,
                       twin=bool(item.get('twin')), exit_ok=False)


def run_item(item):
    prop, concrete = build(item)
    return harness.run(prop, concrete, item, budget_s=harness.budget(item, 90),
                       validate=(item['h'] == 'nums'))


def replay(rep):
    prop, concrete = build(rep['item'])
    return concrete(rep['witness'])
