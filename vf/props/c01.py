"""C01 -- every output character has exactly one source position, inside the source."""
from vf import harness, offrun, skeletons, srcmodel

ID = 'C01'
FUNCTIONS = ['yalafi.tex2txt.tex2txt', 'yalafi.parser.Parser.*', 'yalafi.mathparser.*',
             'yalafi.utils.get_txt_pos', 'yalafi.utils.get_txt_pos_ml', 'yalafi.utils.latex_error',
             'yalafi.utils.replace_phrases', 'yalafi.scanner.Scanner.scan (on the skeleton)']
RULE = ('E1-off: item = (skeleton S, options, multi_language); symbolic d = length of a comment '
        'line before S, e = length of a comment after S; obligations len(plain)==len(map) and '
        '1<=p<=d+|S|+e discharged by z3 per path.')
BOUNDS = {'quick': 'skeleton catalogue (well-formed + faulty) x 10 option sets (covering slice) '
                   'x ml in {F,T}; + seeded slice of truncations/deletions; d in {0} U [2,inf), '
                   'e >= 0 unbounded',
          'thorough': 'as quick with the full product skeleton x option set x ml and 6 '
                      'truncations/deletions per skeleton'}
OUTSIDE = 'documents outside the skeleton family; prefixes/suffixes other than comment text'
ASSUMPTIONS = ['scanner re-basing (prechecked concretely per skeleton, linked natively per path)',
               'stderr formatting stubbed (numbers kept as terms)',
               'P and Q are comment text; other surroundings are covered by the skeleton family']


def items(tier, seed):
    out = []
    docs = [(n, s, o) for n, (s, o) in skeletons.WELL.items()]
    docs += [('F:' + n, s, o) for n, (s, o) in skeletons.FAULTY.items()]
    nos = len(skeletons.OPTION_SETS)
    for i, (name, S, o) in enumerate(docs):
        if tier == 'quick':
            sel = [0, 1 + (i + seed) % (nos - 1)]
        else:
            sel = range(nos)
        for j in sel:
            oo = dict(skeletons.OPTION_SETS[j])
            if o.get('pack') and 'pack' not in oo:
                oo['pack'] = o['pack']
            if o.get('dcls') and 'dcls' not in oo:
                oo['dcls'] = o['dcls']
            for ml in ((False, True) if (tier != 'quick' or (i + j) % 3 == 0) else (False,)):
                if ml and oo.get('unkn'):
                    continue
                out.append({'h': 'off', 'name': name, 'S': S, 'opts': oo, 'ml': ml})
    # phrase replacement (repl): rules derived from the skeleton's own plain text so that
    # the last word gets a longer, the first an empty and a middle pair a shorter replacement
    import re
    from vf import yal
    for i, (name, S, o) in enumerate(docs):
        if tier == 'quick' and (i + seed) % 2:
            continue
        try:
            (plain, _cm), _d, _e = yal.run_native(S, yal.mkopts(o))
        except SystemExit:
            continue
        words = re.findall(r'[^\W\d_]+', plain)
        if len(words) < 2:
            continue
        rules = [words[-1] + ' & ' + words[-1] + ' and a considerably longer replacement',
                 words[0] + ' & ', '# comment']
        if len(words) > 3:
            rules.append(words[1] + ' ' + words[2] + ' & x')
        oo = dict(o, repl=rules)
        for ml in (False, True):
            out.append({'h': 'off', 'name': 'repl:' + name, 'S': S, 'opts': oo, 'ml': ml})
    per = 2 if tier == 'quick' else 6
    for name, S, o in skeletons.malformed(seed, per):
        out.append({'h': 'off', 'name': name, 'S': S, 'opts': dict(o), 'ml': False})
        if tier != 'quick':
            out.append({'h': 'off', 'name': name, 'S': S, 'opts': dict(o, lang='de'), 'ml': True})
    # vacuity twins: the same harness with the upper bound lowered by one must be refuted
    out.append({'h': 'off', 'name': 'twin', 'S': 'A $x', 'opts': {}, 'ml': False, 'twin': True})
    out.append({'h': 'off', 'name': 'twin2', 'S': 'A B', 'opts': {}, 'ml': False, 'twin': True})
    return out


def build(item):
    S = item['S']
    pre_ok, suf_ok = srcmodel.rebase_ok(S, nosp=bool(item['opts'].get('nosp')))
    return offrun.make(S, item['opts'], item['ml'], None, pre_ok, suf_ok,
                       twin=bool(item.get('twin')), exit_ok=False)


def run_item(item):
    prop, concrete = build(item)
    return harness.run(prop, concrete, item, budget_s=harness.budget(item, 90))


def replay(rep):
    prop, concrete = build(rep['item'])
    return concrete(rep['witness'])
