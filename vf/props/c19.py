"""C19 -- the unknowns list names exactly the undeclared macros/environments used in text."""
from vf import family, harness, offrun, sketch, srcmodel, yal
from vf.family import T

ID = 'C19'
FUNCTIONS = ['yalafi.tex2txt.tex2txt (unkn option)', 'yalafi.parser.Parser.expand_macro',
             'yalafi.parser.Parser.begin_environment', 'yalafi.mathparser.MathParser.'
             'expand_math_section', 'yalafi.parser.Parser.get_unknowns']
RULE = ('fam: document family with symbolic surrounding offsets, option unkn: output must be '
        'the expected names (from the node annotations), once each, in order of first use; '
        'special: documents mixing declared / undeclared names in text, maths, comments, skipped '
        'regions, before/after a definition, x package selections and a replacement list; '
        'name: macro name with a symbolic hole (letters) decided against every table key.')
BOUNDS = {'quick': 'family (singles, repeats, 150 pairs, 420 nestings) + 16 special documents x '
                   '3 option sets + name holes <= 2 letters', 'thorough': 'full family'}
OUTSIDE = 'names declared by packages outside the catalogue'
ASSUMPTIONS = ['the expected list comes from the node annotations (unknown / unknown_env nodes)',
               'output format: one name per line, final line break']

SPECIAL = [
    ('math_first', '$\\zzm$ A \\zzm{B} C', ['\\zzm']),
    ('math_only', 'A $\\zzm + \\zzn$ \\[ \\zzo \\] B', []),
    ('display_then_text', '\\begin{equation}\\zzm\\end{equation} \\zzm', ['\\zzm']),
    ('text_in_math', '$x \\mbox{\\zzt a} y$', ['\\zzt']),
    ('comment', 'A % \\zzc\n B \\zzd', ['\\zzd']),
    ('skip_region', 'A\n%%% LT-SKIP-BEGIN\n\\zzs\n%%% LT-SKIP-END\nB \\zzd', ['\\zzd']),
    ('ltskip', 'A \\LTskip{\\zzs} \\zzd', ['\\zzd']),
    ('before_def', '\\zzu A \\newcommand{\\zzu}{X} \\zzu', ['\\zzu']),
    ('after_def', '\\newcommand{\\zzu}{X} \\zzu \\def\\zzv{Y}\\zzv \\zzw', ['\\zzw']),
    ('order', '\\zzb \\zza \\zzb \\zzc{\\zza} \\zzd', ['\\zzb', '\\zza', '\\zzc', '\\zzd']),
    ('envs', '\\begin{zzenv}A\\end{zzenv} \\begin{itemize}\\item B\\end{itemize} \\begin{zzenv}'
             'C\\end{zzenv}\\begin{zzother}\\end{zzother}', ['zzenv', 'zzother']),
    ('footnote_arg', 'A\\footnote{\\zzf B} \\textbf{\\zzg C} \\section{\\zzh}',
     ['\\zzf', '\\textbf', '\\zzg', '\\zzh']),
    ('declared', 'A \\label{x}\\ref{x}\\cite{y}\\footnote{F}\\section{S}\\LTadd{z}\\par B', []),
    ('newtheorem', '\\newtheorem{zzthm}{T}\\begin{zzthm}A\\end{zzthm}\\begin{zzlem}B\\end{zzlem}',
     ['zzlem']),
    ('ltinput', 'A \\LTinput{/verif/vf/data/defs_with_text.tex} \\fromfile \\zzfoo{B} \\zzq',
     ['\\zzq']),
    ('handler_args', '\\newtheorem{t}{\\zzthm Title}\\hspace{\\zzlen} \\phantom{\\zzph} A \\hphantom{\\zzhp}B',
     ['\\zzthm', '\\zzlen', '\\zzph', '\\zzhp']),
    ('handler_args_then_text', '\\phantom{\\zza} \\zzb \\zza \\section{\\zzc} \\zzc', ['\\zza', '\\zzb', '\\zzc']),
    ('pkg_requires', '\\usepackage[final]{graphicx}\\usepackage{pgfplots}A \\tikzset{x} \\usetikzlibrary{y} '
                     '\\pgfplotsset{z} \\includegraphics{f} \\begin{tikzpicture}\\end{tikzpicture} B', []),
    ('cls_opts_requires', '\\documentclass[a4paper]{article}\\usepackage{graphicx}\\usepackage{pgfplots}A '
                          '\\tikzset{x} \\begin{tikzpicture}\\end{tikzpicture} \\zzq B', ['\\zzq']),
    ('glossaries_extra_requires', '\\usepackage{glossaries-extra}A \\newabbreviation{a}{b}{c} \\glsdisp{a}{T} '
                                  '\\zzq', ['\\zzq']),
    # arguments that a handler only evaluates (phantoms, lengths) inside maths: used in maths only
    ('handler_args_in_math', '$x \\phantom{\\zzsum} y \\hphantom{\\zzint}$ A \\[ a\\hspace{\\zzlen}b \\] \\zzq',
     ['\\zzq']),
    ('handler_args_math_then_text', '$\\phantom{\\zza}$ \\zzb \\phantom{\\zza}', ['\\zzb', '\\zza']),
    # layouts of a package list: blanks and line breaks around the names (README: "as in LaTeX")
    ('pkg_list_layout', '\\usepackage{xcolor ,hyperref}\\usepackage{\n  amsthm\n}A \\textcolor{red}{B} '
                        '\\href{u}{t} \\begin{proof}P\\end{proof} \\zzq', ['\\zzq']),
    ('pkg_list_layout2', '\\usepackage{ xcolor }\\usepackage{amsthm ,\n hyperref\n}A \\textcolor{red}{B} '
                         '\\href{u}{t} \\begin{proof}P\\end{proof} \\zzq', ['\\zzq']),
    ('env_in_math', '\\[ \\begin{zzmat} a \\end{zzmat} \\] \\begin{zzmat}b\\end{zzmat}', ['zzmat']),
]
OPTSETS = [{'pack': '*'}, {'pack': ''}, {'pack': '*', 'repl': ['zzd & zzq', 'zza zzb & x', 'zzenv & E'],
                                         'lang': 'de'}]


def unk_oracle(exp, twin=False):
    def orc(S, d, e, doc, flat, diags):
        lab, plain, cm = flat[0]
        want = '\n'.join(exp + (['x'] if twin else [])) + '\n'
        if plain != want:
            return 'C19 unknowns list %r, expected %r' % (plain, want)
        return None
    return orc


def items(tier, seed):
    out = []
    for name, spec in family.family(tier, seed):
        out.append({'h': 'fam', 'name': name, 'spec': spec})
    for sp in SPECIAL:
        for oi in range(len(OPTSETS)):
            out.append({'h': 'special', 'doc': sp[0], 'o': oi})
    for ctx in ('text', 'math', 'arg', 'after_def'):
        out.append({'h': 'name', 'ctx': ctx, 'L': 2 if tier == 'quick' else 3, 'cost': 5})
    out.append({'h': 'special', 'doc': 'order', 'o': 0, 'twin': True})
    return out


def build(item):
    twin = bool(item.get('twin'))
    if item['h'] == 'fam':
        node = family.build(item['spec'])
        S, exp, opts = node.src, node.unk, dict(family.OPTS, unkn=True)
    elif item['h'] == 'special':
        name, S, exp = next(s for s in SPECIAL if s[0] == item['doc'])
        opts = dict(OPTSETS[item['o']], unkn=True)
    else:
        return build_name(item)
    pre_ok, suf_ok = srcmodel.rebase_ok(S)
    return offrun.make(S, opts, False, unk_oracle(exp, twin), pre_ok, suf_ok)


def build_name(item):
    """\\zz<h> with h = symbolic letters: whether the name is declared is decided by the
    solver against every key of the macro tables (dictionary look-up on a symbolic string)"""
    ctx = item['ctx']
    pre, post = {
        'text': ('A \\q', ' B \\zzd'),
        'math': ('A $\\q', '$ B \\zzd'),
        'arg': ('A \\textbf{\\q', ' x} B \\zzd'),
        'after_def': ('\\newcommand{\\qab}{X}\\def\\qc{Y} A \\q', ' B \\zzd'),
    }[ctx]
    opts = {'pack': '*', 'unkn': True}
    import re as _re
    # reference: names declared for these options, computed from a parser built natively
    parms = yal.parameters.Parameters('en')
    packs = yal.tex2txt.get_packages('', parms.class_modules) + yal.tex2txt.get_packages(
        '*', parms.package_modules)
    p = yal.parser.Parser(parms, packs)
    declared = set(p.the_macros)

    special = ['\\begin', '\\end', '\\item', '\\verb', '\\def']
    decl = sorted(declared | set(parms.accent_macros)
                  | ({'\\qab', '\\qc'} if ctx == 'after_def' else set()))
    L = item['L']

    def expected(name, known):
        exp = []
        if ctx == 'arg':
            exp.append('\\textbf')
        if not known and ctx != 'math':
            exp.append(name)
        exp.append('\\zzd')
        return '\n'.join(exp) + '\n'

    def concrete(w):
        h0 = w['h']
        if len(h0) > L or not all('a' <= c <= 'z' or 'A' <= c <= 'Z' for c in h0):
            return None
        name = '\\q' + h0
        if name in special:
            return None
        (plain, cm), diags, err = yal.run_native(pre + h0 + post, yal.mkopts(opts))
        want = expected(name, name in decl)
        if plain != want:
            return 'C19 unknowns list %r for %r, expected %r' % (plain, pre + h0 + post, want)
        return None
    try:
        from vf import driver as D
        import z3
    except ImportError:
        return None, concrete

    def prop(h: str):
        if len(h) > L:
            return D.SKIP
        codes = [ord(c) for c in h]
        with D.NoTracing():
            cons = [z3.Or(z3.And(D.z3var(o) >= 65, D.z3var(o) <= 90),
                          z3.And(D.z3var(o) >= 97, D.z3var(o) <= 122)) for o in codes]
            okc = D.SymbolicBool(z3.And(*cons)) if cons else True
        if not okc:
            return D.SKIP
        name = '\\q' + h
        if any([name == k for k in special]):
            return D.SKIP
        a, b = len('\\q'), 1
        sk = sketch.Sketch([pre[:len(pre) - a], pre[len(pre) - a:] + h + post[:b], post[b:]])
        with yal.symbolic_stderr():
            plain, cm = yal.tex2txt.tex2txt(sk, yal.mkopts(opts), False, sketch.install)
        known = any([name == k for k in decl])
        want = expected(name, known)
        if plain == want:
            return True
        return 'C19 unknowns list differs from the expected one'
    return prop, concrete


def run_item(item):
    prop, concrete = build(item)
    return harness.run(prop, concrete, item, budget_s=harness.budget(item, 120), per_path_s=30,
                       validate=(item['h'] == 'name'))


def replay(rep):
    prop, concrete = build(rep['item'])
    return concrete(rep['witness'])
