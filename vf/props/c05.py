"""C05 -- text flow is preserved: no paragraph break invented or lost, no words glued."""
import re

from vf import harness, sketch

ID = 'C05'
FUNCTIONS = ['yalafi.tex2txt.tex2txt', 'yalafi.scanner.Scanner.scan_space / scan_comment',
             'yalafi.parser.Parser.remove_pure_action_lines', 'yalafi.parser.Parser.'
             'expand_macro / arg_buffer (space skipping)', 'yalafi.scanner.Buffer.skip_space']
RULE = ('sketch A . h1 . V . h2 . B: V a vanishing construct (or a chain of them), h1 and h2 '
        'symbolic runs of blank / tab / line break (every layout up to the length bound); the '
        'gap between A and B in the plain text must be GLUED / SPACE / PARAGRAPH as given by a '
        'reference that reads the source like TeX (line ends, comments, blanks after control '
        'words, blank lines).')
BOUNDS = {'quick': '33 vanishing constructs / chains (incl. calls of user macros with multi-line bodies, closing braces of pass-through arguments) x holes <= 3 characters each',
          'thorough': 'holes <= 4 characters'}
OUTSIDE = 'holes longer than the bound; more than two layout holes per document; white space ' \
          'other than blank, tab, line break'
ASSUMPTIONS = ['reference TeX reader (30 lines) written from the property text; calibrated '
               'against the unchanged tree on the whole family']

# name: (source of V, kind)  kind: 'brace' ends with a delimiter, 'word' ends with a control
# word (blanks after it do not count), 'comment' ends with the line end of a comment,
# 'par' forms a paragraph
VS = {
    'label': ('\\label{kx}', 'brace'),
    'index': ('\\index{kz}', 'brace'),
    'unknown_word': ('\\zzfoo', 'word'),
    'unknown_arg': ('\\zzfoo{}', 'brace'),
    'ltskip': ('\\LTskip{hidden}', 'brace'),
    'vphantom': ('\\vphantom{q}', 'brace'),
    'tikz': ('\\begin{tikzpicture}\\draw (0,0);\\end{tikzpicture}', 'brace'),
    'tikz_lines': ('\\begin{tikzpicture}\n\\draw (0,0);\n\n\\draw;\n\\end{tikzpicture}', 'brace'),
    'newcommand': ('\\newcommand{\\q}{}', 'brace'),
    'group': ('{}', 'brace'),
    'comment': ('%c\n', 'comment'),
    'comment_only_pct': ('%\n', 'comment'),
    'skip_region': ('%%% LT-SKIP-BEGIN\nqq\n\n$\n%%% LT-SKIP-END\n', 'comment'),
    'two_labels': ('\\label{kx}\\index{kz}', 'brace'),
    'label_nl_index': ('\\label{kx}\n\\index{kz}', 'brace'),
    'label_nl_indent_index': ('\\label{kx}\n  \\index{kz}', 'brace'),
    'three_lines': ('\\label{kx} \n\t\\index{kz}\n \\zzfoo', 'word'),
    'label_comment': ('\\label{kx} %c\n', 'comment'),
    'comment_label': ('%c\n\\label{kx}', 'brace'),
    'begin_end_unknown': ('\\begin{zzenv}\n\\end{zzenv}', 'brace'),
    'par': ('\\par', 'par'),
    'usepackage': ('\\usepackage{xcolor}', 'brace'),
    # calls of user macros whose body vanishes; third entry: the definition (before Alpha).
    # A line break in the body is a blank (TeX), never half of a paragraph break.
    'macro_body_lines': ('\\qfig{a}', 'brace', '\\newcommand{\\qfig}[1]{\n  \\label{#1}\n}\n'),
    'macro_body_end_nl': ('\\qfig{a}', 'brace', '\\newcommand{\\qfig}[1]{\\label{#1}\n}\n'),
    'macro_body_start_nl': ('\\qfig', 'word', '\\newcommand{\\qfig}{\n\\label{x}}\n'),
    'macro_body_pct': ('\\qfig{a}', 'brace', '\\newcommand{\\qfig}[1]{%\n  \\label{#1}%\n}\n'),
    # the closing brace of a pass-through argument (Alpha stands inside the argument): the line
    # of the brace becomes blank only because markup vanished
    'close_ltadd': ('}', 'brace', '\\LTadd{'),
    'close_textcolor': ('}', 'brace', '\\textcolor{red}{'),
    'close_user_macro': ('}', 'brace', '\\newcommand{\\qw}[1]{#1}\n\\qw{'),
    'close_unknown': ('}', 'brace', '\\zzfoo{'),
    'close_group': ('}', 'brace', '{'),
    'close_two': ('}}', 'brace', '\\LTadd{\\textcolor{red}{'),
    'def_body_lines': ('\\qfig', 'word', '\\def\\qfig{\n  \\index{x}\n  \\label{y}\n}\n'),
}


INNER_SPACE = {'label_nl_index', 'label_nl_indent_index', 'three_lines', 'label_comment',
               'begin_end_unknown', 'macro_body_lines', 'macro_body_end_nl', 'macro_body_start_nl',
               'def_body_lines'}


def expected(h1, kind, h2, inner=False):
    n1, n2 = h1.count('\n'), h2.count('\n')
    if kind == 'par':
        return 'PARA'
    if kind == 'comment':
        # the comment took the end of its line: a line break in h2 ends a blank line
        if n1 >= 2 or n2 >= 1:
            return 'PARA'
        return 'SPACE' if (h1 or inner) else 'GLUED'
    if n1 >= 2 or n2 >= 2:
        return 'PARA'
    if h1 or inner or (h2 and kind != 'word'):
        return 'SPACE'
    return 'GLUED'


def observed(plain):
    m = re.search(r'Alpha(.*)Beta', plain, re.S)
    if not m:
        return 'LOST', plain
    g = m.group(1)
    if g.strip():
        return 'JUNK', g
    if re.search(r'\n[ \t]*\n', g):
        return 'PARA', g
    return ('SPACE' if g else 'GLUED'), g


def items(tier, seed):
    L = 2 if tier == 'quick' else 3
    out = [{'h': 'flow', 'v': name, 'L': L, 'cost': 5} for name in VS]
    out.append({'h': 'flow', 'v': 'label', 'L': 1, 'twin': True})
    return out


def build(item):
    V, kind = VS[item['v']][:2]
    PRE = VS[item['v']][2] if len(VS[item['v']]) > 2 else ''
    L = item['L']

    def orc(h1, h2, doc, flat, diags):
        plain = flat[0][1]
        want = expected(h1, kind, h2, item['v'] in INNER_SPACE)
        got, gap = observed(plain)
        if got != want:
            return 'C05 %r: the words are %s in the source (TeX reading), %s in the plain text ' \
                   '(gap %r)' % (doc, want, got, gap)
        if diags:
            return 'C05 unexpected diagnostic %r' % (diags,)
        return None
    # the scanner looks ahead after a comment (into h2) and after a control word (into h2/B)
    if kind == 'word':
        tail = len(V) - V.rfind('\\')
    elif kind == 'comment':
        ls = V.rfind('\n', 0, len(V) - 1) + 1
        tail = len(V) - V.index('%', ls)
    else:
        tail = 0
    w2 = (tail, 1) if tail else (0, 0)
    lmins = (0, 1 if kind in ('word', 'par') else 0)
    return sketch.make2(PRE + 'Alpha', V, 'Beta', 'SPACE', L, {'pack': '*'}, orc, lmins=lmins,
                        wins=((0, 0), w2), twin=bool(item.get('twin')))


def run_item(item):
    prop, concrete = build(item)
    return harness.run(prop, concrete, item, budget_s=harness.budget(item, 240), per_path_s=30)


def replay(rep):
    prop, concrete = build(rep['item'])
    return concrete(rep['witness'])
