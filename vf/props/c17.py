"""C17 -- results do not depend on what was processed before."""
import json
import os
import subprocess
import sys

from vf import harness, shellenv, sketch, yal

ID = 'C17'
FUNCTIONS = ['yalafi.tex2txt.tex2txt', 'yalafi.tex2txt.get_packages', 'yalafi.parameters.'
             'Parameters', 'yalafi.parser.Parser', 'yalafi.packages.* (module state)',
             'yalafi.shell.server.Handler.create_message',
             'yalafi.shell.proofreader.run_proofreader_options']
RULE = ('hist: the history is symbolic: two scenario indices chosen by the solver are filtered '
        'before the scenario under test; its result must equal the result of a FRESH '
        'interpreter (subprocess); also repetition.  key: scenario 1 defines glossary entry / '
        'macro / environment / language, scenario 2 uses a name with a symbolic hole: the solver '
        'finds the colliding key; result must equal the fresh one.  state: mutable module-level '
        'state of yalafi.* is unchanged by a call.  server: two requests with symbolic presence '
        'of fields against a fresh server object.')
BOUNDS = {'quick': 'hist: 16 scenarios x histories of length <= 2 (every ordered pair); key: '
                   'holes <= 2 letters', 'thorough': 'same, key holes <= 3'}
OUTSIDE = 'histories longer than 2 (covered inductively only if state + determinism hold); real ' \
          'HTTP transport'
ASSUMPTIONS = ['fresh = a new /venv (or python3-vt) interpreter importing /repo', 'proofreader '
               'process stubbed']

GLS = ('\\usepackage{glossaries}\\gls@defglossaryentry{ab}{name={AB},text={alpha beta},'
       'plural={abs},description={a desc}}\n')
SCEN = [
    ('plain', 'A \\zzab{B} $x$ C\\footnote{F} \\begin{zzab}D\\end{zzab}', {}, False),
    ('glsdef', GLS + 'A \\gls{ab} B', {'pack': 'glossaries'}, False),
    ('glsuse', 'A \\gls{ab} B \\Glspl{ab}', {'pack': 'glossaries'}, False),
    ('macros', '\\newcommand{\\zzab}[1]{<#1>}\\newtheorem{zzab}{Thm}\\def\\zzcd{Q}A \\zzab{B} '
               '\\begin{zzab}C\\end{zzab}\\zzcd', {}, False),
    ('macros_use', 'A \\zzab{B} \\begin{zzab}C\\end{zzab} \\zzcd', {}, False),
    ('babel_de', '\\usepackage[german]{babel}A "a $x$ \\begin{proof}B\\end{proof}',
     {'pack': 'babel,amsthm'}, False),
    ('babel_use', 'A "a $x$ \\begin{proof}B\\end{proof} \\[ a = b \\]', {'pack': 'babel,amsthm'},
     False),
    ('ml', '\\usepackage[english]{babel}A \\foreignlanguage{german}{B C} D \\selectlanguage{russian} E'
           ' $x$', {'pack': '*'}, True),
    ('ml2', 'A \\foreignlanguage{german}{B} C $y$ $z$', {'pack': '*', 'lang': 'de-DE'}, True),
    ('maths', '$a$ $b$ $c$ \\[ x = y \\] $d$ \\begin{align}a&=b\\end{align}', {'pack': 'amsmath'},
     False),
    ('maths_nopack', '$a$ \\begin{align}a&=b\\end{align} \\xspace \\textcolor{red}{T} B', {}, False),
    ('items', '\\begin{enumerate}\\item A\\item B\\begin{enumerate}\\item C\\end{enumerate}'
              '\\end{enumerate}\\item D', {}, False),
    ('items_open', '\\begin{enumerate}\\item A\\begin{itemize}\\item[x] B', {}, False),
    ('cleveref', '\\usepackage{cleveref}A \\cref{q} \\Cref{q,r}', {'pack': 'cleveref'}, False),
    ('defsopt', 'A \\zzab{B} \\zzcd', {'defs': '\\newcommand{\\zzab}[1]{(#1)}\\usepackage{xcolor}'},
     False),
    ('class', '\\documentclass[ngerman]{scrartcl}\\usepackage{babel}A "o \\KOMAoption{x}B',
     {'dcls': 'scrartcl', 'lang': 'ru'}, False),
    ('error', 'A $x \\textbf{B', {'nosp': True, 'seqs': True}, False),
    ('cref_a', '\\usepackage[poorman]{cleveref}\\YYCleverefInput{/verif/vf/data/a.sed}A \\cref{eq:1} B '
               '\\Cref{sec:intro} C', {'pack': 'cleveref'}, False),
    ('cref_b', '\\usepackage[poorman]{cleveref}\\YYCleverefInput{/verif/vf/data/b.sed}A \\cref{eq:2} B '
               '\\cref{eq:1} C \\Cref{sec:intro} D', {'pack': 'cleveref'}, False),
    # language names the filter does not know, in the text and as package option
    ('unknown_lang', 'A \\foreignlanguage{czech}{B C} D \\selectlanguage{dutch} E \\begin{otherlanguage}{danish}F'
                     '\\end{otherlanguage}', {'pack': '*'}, True),
    ('unknown_lang_opt', '\\usepackage[ngerman,czech]{babel}A B \\foreignlanguage{english}{C} D', {'pack': '*'},
     True),
    ('unknown_lang_cls', '\\documentclass[danish]{article}\\usepackage[dutch]{babel}A B', {'lang': 'de-DE'}, True),
    ('addmods', '\\documentclass{article}\\usepackage{xcolor,amsthm}A \\textcolor{red}{B} '
                '\\begin{proof}C\\end{proof}', {}, False),
]


def run_scen(k, doc=None):
    name, d, o, ml = SCEN[k]
    try:
        res, diags, err = yal.run_native(doc if doc is not None else d, yal.mkopts(o), ml)
    except SystemExit as ex:
        return ['EXIT', repr(ex.code)]
    return json.loads(json.dumps([res, diags]))


FRESH_CODE = '''
import sys, json
sys.path.insert(0, %r); sys.path.insert(0, %r)
from vf.props import c17
req = json.loads(sys.stdin.read())
print(json.dumps([c17.run_scen(k, doc) for k, doc in req]))
'''


def fresh(reqs):
    """results of (scenario, doc) requests, each in... one fresh interpreter per request"""
    out = []
    for rq in reqs:
        env = dict(os.environ)
        p = subprocess.run([sys.executable, '-c', FRESH_CODE % (core_verif(), yal.REPO)],
                           input=json.dumps([rq]), capture_output=True, text=True, env=env,
                           timeout=300)
        if p.returncode != 0:
            raise RuntimeError('fresh interpreter failed: ' + p.stderr[-400:])
        out.append(json.loads(p.stdout.strip().splitlines()[-1])[0])
    return out


def core_verif():
    return os.path.dirname(os.path.dirname(os.path.dirname(os.path.abspath(__file__))))


# ---------------------------------------------------------------- module state snapshot

def snapshot():
    import yalafi
    out = {}
    for mname, mod in sorted(sys.modules.items()):
        if not mname.startswith('yalafi') or mod is None:
            continue
        for k, v in sorted(vars(mod).items()):
            if k.startswith('__'):
                continue
            if isinstance(v, (dict, list, set)):
                out[mname + '.' + k] = _fp(v)
    return out


def _fp(v, depth=0):
    if depth > 4:
        return '...'
    if isinstance(v, dict):
        return {str(k): _fp(x, depth + 1) for k, x in sorted(v.items(), key=lambda kv: str(kv[0]))}
    if isinstance(v, (list, tuple, set)):
        return [_fp(x, depth + 1) for x in (sorted(v, key=str) if isinstance(v, set) else v)]
    if isinstance(v, (str, int, float, bool, type(None))):
        return v
    if hasattr(v, '__dict__') and not callable(v):
        return {'<%s>' % type(v).__name__: _fp(vars(v), depth + 1)}
    return '<%s>' % type(v).__name__


# ---------------------------------------------------------------- harnesses

def items(tier, seed):
    out = []
    for j in range(len(SCEN)):
        out.append({'h': 'hist', 'j': j, 'cost': 3})
    for kd in ('gls', 'macro', 'env', 'lang'):
        out.append({'h': 'key', 'kind': kd, 'L': 2 if tier == 'quick' else 3, 'cost': 5})
    out.append({'h': 'server'})
    out.append({'h': 'hist', 'j': 0, 'twin': True})
    return out


def build_hist(item):
    j = item['j']
    twin = bool(item.get('twin'))
    F = fresh([(j, None)])[0]
    n = len(SCEN)

    def run(i1, i2):
        s0 = None
        hist = [i for i in (i1, i2) if i < n]
        for i in hist:
            run_scen(i)
        s0 = snapshot()
        r = run_scen(j)
        s1 = snapshot()
        r2 = run_scen(j)
        if twin:
            r = ['x']
        if r != F:
            return 'C17 %s after history %r gives %r, a fresh interpreter gives %r' % (
                SCEN[j][0], [SCEN[i][0] for i in hist], str(r)[:160], str(F)[:160])
        if r2 != F:
            return 'C17 %s repeated gives %r instead of %r' % (SCEN[j][0], str(r2)[:160],
                                                                str(F)[:160])
        if any(s0[k] != s1[k] for k in s1 if k in s0):
            k = next(k for k in s1 if k in s0 and s0[k] != s1[k])
            return 'C17 module-level state %s changed by filtering %s: %r -> %r' % (
                k, SCEN[j][0], str(s0.get(k))[:100], str(s1[k])[:100])
        return None

    def prop(i1: int, i2: int):
        from vf import driver as D
        if not (0 <= i1 <= n) or not (0 <= i2 <= n):
            return D.SKIP
        if i1 == n and i2 != n:
            return D.SKIP
        idx = list(range(n + 1))
        k1, k2 = idx[i1], idx[i2]       # the solver enumerates the histories (fork per value)
        with D.NoTracing():
            return run(int(k1), int(k2)) or True

    def concrete(w):
        if not (0 <= w['i1'] <= n) or not (0 <= w['i2'] <= n):
            return None
        return run(w['i1'], w['i2'])
    return prop, concrete


KEYS = {
    'gls': (1, 2, 'A \\gls{', '} B', {'pack': 'glossaries'}),
    'macro': (3, 4, 'A \\zz', '{B} C', {}),
    'env': (3, 4, 'A \\begin{zz', '}B C', {}),
    'lang': (5, 6, 'A \\foreignlanguage{', '}{"a} $x$ B', {'pack': 'babel'}),
}


def build_key(item):
    i_def, j_use, pre, post, opts = KEYS[item['kind']]
    twin = bool(item.get('twin'))

    def orc(h0, doc, flat, diags):
        # `flat` is the native result AFTER scenario i_def ran in this process
        F = fresh([(j_use, None)])  # warm-up identical call keeps the helper honest
        name, d, o, ml = SCEN[j_use]
        env = dict(os.environ)
        code = ('import sys, json\nsys.path.insert(0, %r); sys.path.insert(0, %r)\n'
                'from vf import yal\nfrom vf.offrun import flatten\n'
                'r, d, e = yal.run_native(%r, yal.mkopts(%r))\n'
                'print(json.dumps([flatten(r), d]))\n' % (core_verif(), yal.REPO, doc, opts))
        p = subprocess.run([sys.executable, '-c', code], capture_output=True, text=True,
                           env=env, timeout=300)
        if p.returncode != 0:
            return 'fresh interpreter failed: ' + p.stderr[-300:]
        fr = json.loads(p.stdout.strip().splitlines()[-1])
        mine = json.loads(json.dumps([flat, diags]))
        if mine != fr:
            return 'C17 %r after %s gives %r, a fresh interpreter gives %r' % (
                doc, SCEN[i_def][0], str(mine)[:160], str(fr)[:160])
        return None
    run_scen(i_def)
    # \\zz<h>: the macro name is scanned as one symbolic text; braces are token boundaries
    return sketch.make(pre, post, 'ALPHA', item['L'], opts, orc, lmin=0,
                       win=(3, 1) if item['kind'] == 'macro' else None)


def server_check(bits_a, bits_b, twin=False):
    env = shellenv.Env(['f.tex'])
    fields = ['disabledRules', 'enabledRules', 'enabledOnly', 'disabledCategories']

    def requ(bits):
        r = {'language': ['en-GB'], 'text': ['A b.\n']}
        for k, f in enumerate(fields):
            if (bits >> k) & 1:
                r[f] = ['V%d' % k]
        return r

    def mk_server():
        class Srv:
            pass
        s = Srv()
        s.my_lt_options = ['--disable', 'X', '--enabledonly', '--foo', '1']
        s.my_option_map = env.vars.lt_option_map
        s.my_proofreader = env.proofreader.run_proofreader_options
        h = env.server.Handler.__new__(env.server.Handler)
        h.server = s
        return h
    env.answer = lambda plain, lang, n: []

    def call(h, bits):
        env.calls.clear()
        msg = h.create_message(requ(bits))
        return json.loads(json.dumps([msg, env.calls]))
    h = mk_server()
    call(h, bits_a)
    second = call(h, bits_b)
    third = call(h, bits_b)
    ref = call(mk_server(), bits_b)
    if twin:
        ref = ['x']
    if second != ref or third != ref:
        return 'C17 server: request %r after request %r is answered with %r, a fresh server ' \
               'gives %r' % (requ(bits_b), requ(bits_a), str(second)[:200], str(ref)[:200])
    return None


def build_server(item):
    twin = bool(item.get('twin'))

    def prop(a: int, b: int):
        from vf import driver as D
        if not (0 <= a < 16) or not (0 <= b < 16):
            return D.SKIP
        idx = list(range(16))
        ka, kb = idx[a], idx[b]
        with D.NoTracing():
            return server_check(int(ka), int(kb), twin) or True

    def concrete(w):
        return server_check(w['a'], w['b'], twin) if 0 <= w['a'] < 16 and 0 <= w['b'] < 16 \
            else None
    return prop, concrete


def build(item):
    return {'hist': build_hist, 'key': build_key, 'server': build_server}[item['h']](item)


def run_item(item):
    prop, concrete = build(item)
    return harness.run(prop, concrete, item, budget_s=harness.budget(item, 300), per_path_s=60)


def replay(rep):
    prop, concrete = build(rep['item'])
    return concrete(rep['witness'])
