"""C12 -- multi-language mode assigns every word to exactly one part of the right language."""
from vf import harness, offrun, srcmodel, yal
from vf.docs import LANGCH

ID = 'C12'
FUNCTIONS = ['yalafi.utils.get_txt_pos_ml', 'yalafi.utils.ml_append_placeholder / '
             'ml_check_lang_section', 'yalafi.packages.babel.*', 'yalafi.parser.Parser.'
             'expand_arguments (extracted flows start with a hard language token)',
             'yalafi.parser.Parser.remove_pure_action_lines (language tokens survive)',
             'yalafi.parameters.Parameters.change_parser_lang', 'yalafi.tex2txt.tex2txt']
RULE = ('doc: babel document (package/class options, \\selectlanguage, \\foreignlanguage, '
        'otherlanguage(*), nesting, in arguments and footnotes) with symbolic surrounding offsets '
        'and the continuation threshold T symbolic and unbounded; every visible character must '
        'appear in exactly one part, at its exact position, in the part labelled with the '
        'language of the reference language stack; for an insertion of w words inside a sentence '
        'the surrounding part continues with one placeholder iff w <= T; the words equal those '
        'of the single-language run.')
BOUNDS = {'quick': '34 documents; all thresholds (CrossHair forks on the comparisons with T)',
          'thorough': 'same documents x 3 main languages'}
OUTSIDE = 'joining at the start / end of a sentence is only checked for conservation and ' \
          'labels (the property fixes joining "inside a sentence")'
ASSUMPTIONS = ['reference language stack (push for \\foreignlanguage / otherlanguage, replace '
               'for \\selectlanguage, language at the call for detached flows); babel names '
               'german, english, russian, french']

CODE = {'german': 'de-DE', 'ngerman': 'de-DE', 'english': 'en-GB', 'russian': 'ru-RU',
        'french': 'fr', 'american': 'en-US'}


class B:
    """builder: source text + (offset -> language) of every visible character"""
    def __init__(self, main):
        self.src = ''
        self.lang = {}
        self.stack = [main]
        self.det = []

    def w(self, text):
        for c in text:
            if not c.isspace():
                self.lang[len(self.src)] = self.stack[-1]
            self.src += c
        return self

    def raw(self, s):
        self.src += s
        return self

    def fl(self, name, body, opt=''):
        self.src += '\\foreignlanguage' + opt + '{' + name + '}{'
        self.stack.append(CODE[name])
        body(self)
        self.stack.pop()
        self.src += '}'
        return self

    def env(self, name, body, star=''):
        self.src += '\\begin{otherlanguage' + star + '}{' + name + '}'
        self.stack.append(CODE[name])
        body(self)
        self.stack.pop()
        self.src += '\\end{otherlanguage' + star + '}'
        return self

    def sel(self, name):
        self.src += '\\selectlanguage{' + name + '}'
        self.stack[-1] = CODE[name]
        return self

    def grp(self, pre, body, post='}'):
        self.src += pre
        keep = list(self.stack)
        body(self)
        self.stack = keep
        self.src += post
        return self


def W(t):
    return lambda b: b.w(t)


def seq(*fs):
    def f(b):
        for x in fs:
            x(b)
    return f


def FL(name, body):
    return lambda b: b.fl(name, body)


def ENV(name, body, star=''):
    return lambda b: b.env(name, body, star)


def SEL(name):
    return lambda b: b.sel(name)


def RAW(s):
    return lambda b: b.raw(s)


def GRP(pre, body, post='}'):
    return lambda b: b.grp(pre, body, post)


# name: (main language option, preamble setting it, body, insertion info or None)
#   insertion info: (number of words of the single insertion inside a sentence)
def DOCS():
    d = {}
    for n, words in ((1, 'eins'), (2, 'eins zwei'), (3, 'eins zwei drei'),
                     (4, 'eins zwei drei vier'), (6, 'eins zwei drei vier fünf sechs')):
        d['ins%d' % n] = ('en-GB', '', seq(W('Alpha beta '), FL('german', W(words)), W(' gamma delta.')),
                          n)
    d['ins_env_star'] = ('en-GB', '', seq(W('Alpha beta '), ENV('german', W('eins zwei'), '*'),
                                           W(' gamma delta.')), 2)
    d['two_ins'] = ('en-GB', '', seq(W('A b '), FL('german', W('eins')), W(' c d '),
                                      FL('french', W('un deux')), W(' e f.')), None)
    d['ins_start'] = ('en-GB', '', seq(FL('german', W('eins zwei')), W(' gamma delta.')), None)
    d['ins_end'] = ('en-GB', '', seq(W('Alpha beta '), FL('german', W('eins zwei.'))), None)
    d['nested'] = ('en-GB', '', seq(W('A b '), FL('german', seq(W('eins '), FL('french', W('un')),
                                                                 W(' zwei'))), W(' c d.')), None)
    d['nested_start'] = ('de-DE', '\\usepackage[german]{babel}\n',
                         seq(W('G g '), FL('english', seq(FL('russian', W('Р')), W(' e e'))),
                             W(' g.')), None)
    d['nested_end'] = ('de-DE', '\\usepackage[german]{babel}\n',
                       seq(W('G g '), FL('english', seq(W('e e '), FL('russian', W('Р р')))),
                           W(' g h.')), None)
    d['select'] = ('en-GB', '', seq(W('Alpha beta.\n'), SEL('german'), W('\nEins zwei drei.\n'),
                                    SEL('english'), W(' Gamma.')), None)
    d['select_in_group'] = ('en-GB', '', seq(W('A b '), FL('german', seq(W('eins '), SEL('french'),
                                                                          W('un deux'))), W(' c d.')),
                            None)
    d['env'] = ('en-GB', '', seq(W('Alpha\n'), ENV('german', W('\nEins zwei drei vier fünf.\n')),
                                 W('\nBeta gamma.')), None)
    d['env_short'] = ('en-GB', '', seq(W('Alpha\n'), ENV('german', W('\nEins\n')), W('\nBeta.')), None)
    d['in_arg'] = ('en-GB', '', seq(W('A '), GRP('\\textbf{', seq(W('b '), FL('german', W('eins zwei')),
                                                              W(' c'))), W(' d.')), None)
    d['in_footnote'] = ('en-GB', '', seq(W('A b'), GRP('\\footnote{', seq(W('Foot '), FL('german',
                                         W('eins zwei drei vier')), W(' note.'))), W(' c d.')), None)
    d['footnote_in_foreign'] = ('en-GB', '', seq(W('A '), FL('german', seq(W('eins'), GRP('\\footnote{',
                                                 W('Fuß note')), W(' zwei'))), W(' b.')), None)
    d['after_select_footnote'] = ('en-GB', '', seq(SEL('german'), W('Eins'), GRP('\\footnote{',
                                                   W('Fuß')), W(' zwei.')), None)
    d['pkg_opt'] = ('de-DE', '\\usepackage[english,german]{babel}\n',
                    seq(W('Eins zwei '), FL('english', W('one')), W(' drei.')), 1)
    d['cls_opt'] = ('de-DE', '\\documentclass[ngerman]{scrartcl}\\usepackage{babel}\n',
                    seq(W('Eins zwei '), FL('english', W('one two')), W(' drei.')), 2)
    d['cls_and_pkg_opt'] = ('en-GB', '\\documentclass[ngerman]{scrartcl}\\usepackage[english]{babel}\n',
                            seq(W('Alpha beta '), FL('german', W('eins')), W(' gamma.')), 1)
    d['pkg_then_cls_lang'] = ('ru-RU', '\\documentclass[english]{article}\\usepackage[german,russian]'
                              '{babel}\n', seq(W('Ж ж '), FL('english', W('one')), W(' ж.')), 1)
    d['main_opt_only'] = ('ru-RU', '', seq(W('Ж ж '), FL('german', W('eins zwei')), W(' ж.')), 2)
    d['cls_lang_pkg_other_opt'] = ('de-DE', '\\documentclass[ngerman]{article}\\usepackage[shorthands=off]'
                                   '{babel}\n', seq(W('Eins zwei '), FL('english', W('one')), W(' drei.')), 1)
    d['cls_lang_pkg_two_opts'] = ('de-DE', '\\documentclass[12pt,ngerman]{scrartcl}\\usepackage[activeacute,'
                                  'math=normal]{babel}\n', seq(W('Eins '), FL('french', W('un')), W(' zwei.')), 1)
    d['later_footnote'] = ('en-GB', '', seq(W('A '), FL('german', seq(W('eins'), GRP('\\footnote{', W('Fuß')),
                                                                     W(' zwei'))),
                                            W(' b'), GRP('\\footnote{', W('Later foot')), W(' c'),
                                            GRP('\\caption{', W('Cap')), W(' d.')), None)
    d['select_in_env_then_footnote'] = ('en-GB', '', seq(W('A\n'), ENV('german', seq(W('\nEins '), SEL('french'),
                                                         W(' un deux\n'))), W('\nb'),
                                                         GRP('\\footnote{', W('Foot')), W(' c.')), None)
    d['nested_same'] = ('en-GB', '', seq(W('A '), ENV('german', seq(W(' B '), FL('german', W('C')),
                                                                   W(' D '))), W(' E.')), None)
    d['nested_same_fl'] = ('en-GB', '', seq(W('A b '), FL('german', seq(W('eins '), FL('german',
                                            W('zwei')), W(' drei vier fünf'))), W(' c d.')), None)
    d['same_lang'] = ('en-GB', '', seq(W('A b '), FL('english', W('c d')), W(' e.')), None)
    d['math_inside'] = ('en-GB', '', seq(W('A b '), FL('german', seq(W('eins '), RAW('$x$'), W(' zwei'))),
                                         W(' c.')), None)
    d['blank_only'] = ('en-GB', '', seq(W('A b '), FL('german', RAW(' ')), W(' c d.')), None)
    d['lines'] = ('en-GB', '', seq(W('A b\n'), FL('german', W('eins')), RAW('\n\\label{x}\n'),
                                   W('c d.\n\n'), SEL('german'), RAW('\n'), W('Zwei.')), None)
    d['pure_action_line'] = ('en-GB', '', seq(W('A\n'), SEL('german'), RAW('\n'), W('Eins\n'),
                                              SEL('english'), RAW('\n\\label{q}\n'), W('B')), None)
    d['optarg'] = ('en-GB', '', seq(W('A b '), lambda b: b.fl('german', W('eins zwei'), '[date]'),
                                    W(' c d.')), 2)
    # a short insertion directly followed by text of a third language
    d['ins_then_third'] = ('en-GB', '', seq(W('Alpha beta '), FL('german', W('eins')),
                                           FL('french', W('un deux trois quatre cinq six')), W(' gamma delta.')), None)
    d['ins_then_third_short'] = ('en-GB', '', seq(W('Alpha beta '), FL('german', W('eins')),
                                                 FL('french', W('un')), W(' gamma delta.')), None)
    # detached flows behind a nested region that names the language already in force
    d['nested_same_then_footnote'] = ('en-GB', '', seq(W('A b '), FL('german', seq(
        W('eins '), FL('german', W('zwei')), W(' drei'), GRP('\\footnote{', W('Fuß note')), W(' vier'))),
        W(' c d.')), None)
    d['nested_same_env_then_caption'] = ('en-GB', '', seq(W('A\n'), ENV('german', seq(
        W('\nEins '), ENV('german', W('zwei'), '*'), W(' drei'), GRP('\\caption{', W('Bild eins')),
        W(' vier fünf\n'))), W('\nb c.')), None)
    # a region whose last token is a macro without arguments: the closing language switch
    # stands where that macro skips the following space
    d['fl_ends_unknown_macro'] = ('en-GB', '', seq(W('A b '), FL('german', seq(
        W('eins zwei drei vier fünf '), RAW('\\zz'))), W(' c d.')), None)
    d['fl_ends_known_macro'] = ('en-GB', '', seq(W('A b '), FL('german', seq(
        W('eins zwei drei vier fünf '), RAW('\\noindent'))), W(' c d.')), None)
    d['short_fl_ends_macro'] = ('en-GB', '', seq(W('A b '), FL('german', seq(W('eins '), RAW('\\zz'))),
                                                 W(' c d.')), None)
    d['env_ends_fl'] = ('de-DE', '\\usepackage[german]{babel}\n',
                        seq(W('G '), FL('english', seq(W('e '), ENV('russian', W('Р р р р р')))),
                            W(' g h.')), None)
    d['env_star_ends_fl'] = ('de-DE', '\\usepackage[german]{babel}\n',
                             seq(W('G '), FL('english', seq(W('e '), ENV('russian', W('Р р р р р'), '*'))),
                                 W(' g h.')), None)
    d['env_ends_env'] = ('en-GB', '', seq(W('A\n'), ENV('german', seq(W('\nEins zwei drei vier fünf\n'),
                                          ENV('french', W('un deux trois quatre cinq\n')))),
                                          W('\nb c.')), None)
    d['sel_group_ends_macro'] = ('en-GB', '', seq(W('A b '), FL('german', seq(W('eins '), SEL('french'),
                                                  W('un deux trois quatre '), RAW('\\zz'))), W(' c d.')), None)
    return d


GLUE_OK = {'env_ends_fl', 'ins_then_third', 'ins_then_third_short'}


def build_doc(name, main_override=None):
    main, pre, body, ins = DOCS()[name]
    b = B(main)
    b.raw(pre)
    body(b)
    return b, main, ins


def lang_opt(main, pre):
    """the lang option: main language unless the preamble sets it"""
    return main if not pre else 'en-GB'


def judge(name, doc, d, flat, T, single_words, twin=False):
    b, main, ins = build_doc(name)
    seen = {}
    allph = set(''.join(sum(LANGCH.values(), [])))
    for lab, plain, cm in flat:
        lang = lab.split('#')[0]
        for k, c in enumerate(plain):
            if c.isspace():
                continue
            o = cm[k] - 1 - d
            if 0 <= o < len(b.src) and o in b.lang and b.src[o] == c:
                if b.lang[o] != lang:
                    return 'C12 %r: character %r at offset %d is in a part labelled %s, the ' \
                           'language in force there is %s' % (b.src, c, o, lang, b.lang[o])
                seen[o] = seen.get(o, 0) + 1
            elif c in allph or c in 'BCDEFGБВГДЕЖ-':
                continue          # placeholder for an insertion / a formula
            else:
                return 'C12 %r: unexpected character %r mapped to offset %d in part %s' % (
                    b.src, c, o, lab)
    want = dict.fromkeys(b.lang, 1)
    if twin:
        want[-5] = 1
    if seen != want:
        miss = sorted(set(want) - set(seen))
        dup = sorted(o for o in seen if seen[o] != 1)
        return 'C12 %r: characters at offsets %r missing, %r duplicated in the parts %r' % (
            b.src, miss[:8], dup[:8], [(l, p) for l, p, _c in flat])
    # same words as the single-language run
    words = sorted(w for _l, p, _c in flat for w in p.split() if not _is_ph(w))
    sw = sorted(w for w in single_words if not _is_ph(w))
    if name in GLUE_OK:
        # the single-language run joins two words (blank eaten behind a region that ends with a
        # control word: not C12's subject); compare characters instead of words
        words, sw = sorted(''.join(words)), sorted(''.join(sw))
    if words != sw:
        return 'C12 %r: words of all parts %r differ from the single-language run %r' % (
            b.src, words, sorted(single_words))
    if ins is not None:
        mains = [(l, p) for l, p, _c in flat if l.split('#')[0] == main and p.strip()]
        nph = sum(1 for _l, p in mains for w in p.split() if _is_ph(w.strip('.,')))
        if ins <= T:
            if len(mains) != 1 or nph != 1:
                return 'C12 %r: insertion of %d words with threshold %d: expected one %s part ' \
                       'with one placeholder, got %r' % (b.src, ins, T, main, mains)
        else:
            if len(mains) != 2 or nph != 0:
                return 'C12 %r: insertion of %d words with threshold %d: expected the %s text ' \
                       'in two parts without placeholder, got %r' % (b.src, ins, T, main, mains)
    return None


def _is_ph(w):
    w = w.strip('.,;:')
    return any(w in v for v in LANGCH.values()) or (len(w) == 5 and w[1] == '-' and w[3] == '-')


def items(tier, seed):
    out = [{'h': 'doc', 'name': n} for n in DOCS()]
    out.append({'h': 'doc', 'name': 'ins2', 'twin': True})
    return out


def build(item):
    name = item['name']
    b, main, ins = build_doc(name)
    pre = DOCS()[name][1]
    S = b.src
    opts = {'lang': main if not pre else ('en-GB' if 'german' not in pre and 'russian' not in pre
                                          else 'fr'), 'pack': '*'}
    # the initial language comes from the lang option unless the document sets it
    if pre:
        opts['lang'] = 'fr'
    (sp, _scm), _d, _e = yal.run_native(S, yal.mkopts(opts))
    single_words = sp.split()
    twin = bool(item.get('twin'))

    def orc(_S, d, e, doc, flat, diags, T=None):
        return None
    pre_ok, suf_ok = srcmodel.rebase_ok(S)
    prop0, conc0 = offrun.make(S, opts, True, None, pre_ok, suf_ok, sym_thresh=True)

    def check(d, e, T):
        doc, flat, diags, ex = offrun.native(S, d, e, opts, True, T)
        if ex is not None:
            return 'C12 filter stopped: ' + ex
        return judge(name, doc, d, flat, T, single_words, twin)

    def prop(d: int, e: int, T: int):
        from vf import driver as D
        r = prop0(d, e, T)
        if isinstance(r, D.Skip) or (r is not True and r is not None):
            return r
        # the path is linked to the native run on its witness: judge that run
        with D.NoTracing():
            m = D._model()
            d0, e0, T0 = D._peek(d, m), D._peek(e, m), D._peek(T, m)
            v = check(d0, e0, T0)
            if v is not None:
                return D.Fail(v, {'d': d0, 'e': e0, 'T': T0})
        return True

    def concrete(w):
        r = conc0(w)
        if r is not None:
            return r
        return check(w['d'], w['e'], w.get('T', 3))
    return prop, concrete


def run_item(item):
    prop, concrete = build(item)
    return harness.run(prop, concrete, item, budget_s=harness.budget(item, 200), per_path_s=30)


def replay(rep):
    prop, concrete = build(rep['item'])
    return concrete(rep['witness'])
