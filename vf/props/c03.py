"""C03 -- see DESIGN.md section 4"""
from vf import family
from vf.family import T
from vf.props import flow_common as fc
from vf.props import sk_common as sk

ID = 'C03'
FUNCTIONS = ['yalafi.tex2txt.tex2txt', 'yalafi.parser.Parser.*', 'yalafi.mathparser.MathParser.*',
             'yalafi.handlers.*', 'yalafi.utils.get_txt_pos', 'yalafi.scanner.Scanner.scan']
RULE = ('item = one document of the family (construct catalogue: singles, ordered pairs x '
        'layout separators, one-level nestings, repeated uses); symbolic: comment text of '
        'length d before and e after it; verdict of the event oracle on the linked native run.')
BOUNDS = {'quick': 'singles + repeats + 150 pairs + 120 nestings (seeded slice); d in {0} U '
                   '[2,inf), e >= 0', 'thorough': 'singles + repeats + 2500 pairs + all '
                   'one-level nestings'}
OUTSIDE = 'documents outside the family (deeper nesting, other packages); non-comment surroundings'
ASSUMPTIONS = ['event annotations of vf/docs.py (written from the property texts and README, '
               'calibrated natively on the tree under test: 4651 documents agree (tools/calibrate.py))',
               'scanner re-basing + stderr stub as for C01']


A, B = T('Alpha'), T('Beta')


def sketches(tier):
    """hidden slots with symbolic content (anything that the slot syntax allows): nothing of it
    may show; text slots with a symbolic word: it must show exactly once, in place"""
    Lh = 2 if tier == 'quick' else 3
    S = [
        ('label_key', ['cat', A, ['label', 'k@H@'], ' ', B], 'HIDDEN', Lh, None),
        ('index_key', ['cat', A, ' ', ['index', '@H@z'], B], 'HIDDEN', Lh, None),
        ('ref_key', ['cat', A, ' ', ['ref', '@H@'], ' ', B], 'HIDDEN', Lh, None),
        ('cite_key', ['cat', A, ' ', ['cite', 'k@H@', T('p. 3')], ' ', B], 'HIDDEN', Lh, None),
        ('ltskip', ['cat', A, ' ', ['ltskip', T('@H@')], B], 'HIDDEN', Lh, None),
        ('ltalter_hidden', ['cat', A, ' ', ['ltalter', T('q@H@'), B], ' ', A], 'HIDDEN', Lh, None),
        ('vphantom', ['cat', A, ['vphantom', T('@H@')], B], 'HIDDEN', Lh, None),
        ('href_url', ['cat', A, ' ', ['href', 'u@H@', B], ' ', A], 'HIDDEN', Lh, None),
        ('color_name', ['cat', A, ' ', ['passthru', 'textcolor', B, '{r@H@}'], ' ', A], 'HIDDEN', Lh, None),
        ('heading_short', ['cat', ['heading', A, 'section', '', T('s@H@')], '\n', B], 'HIDDEN', Lh, None),
        ('comment', ['cat', A, ' ', ['comment', '@H@'], B], 'COMMENT', Lh, (1, 2)),
        ('skip_body', ['cat', A, '\n', ['skip_region', 'q@H@'], B], 'NAME', Lh, None),
        ('tikz_body', ['cat', A, '\n', ['removed_env', 'tikzpicture', '(0,0) @H@ (1,1);'], '\n', B],
         'NAME', Lh, None),
        ('math_body', ['cat', A, ' ', ['inline_math', 'x@H@'], ' ', B], 'MATH', Lh, None),
        ('word_unknown_arg', ['cat', A, ' ', ['unknown', 'zzfoo', T('x@H@')], ' ', B], 'WORD', Lh, None),
        ('word_passthru', ['cat', A, ' ', ['passthru', 'framebox', T('@H@x'), '[3cm][l]'], ' ', B], 'WORD', Lh, None),
        ('word_caption', ['cat', A, ['footnote', T('c@H@'), 'caption', 'sh'], ' ', B], 'WORD', Lh, None),
        ('word_item', ['cat', ['items', 'enumerate', [[None, T('@H@')], [None, B]]], ' ', A], 'WORD', Lh, None),
        ('word_theorem', ['cat', ['theorem', ['cat', '\n', T('t@H@'), '\n'], 'thm', 'Theorem', T('N@H@')], ' ', B]
         if False else ['cat', ['theorem', ['cat', '\n', T('t@H@'), '\n']], ' ', B], 'WORD', Lh, None),
        ('word_tabular', ['cat', ['G', '\\begin{tabular}{ll}', None], T('a@H@'), ' ', ['special', '&'], ' ', B,
                          ['G', '\\end{tabular}', None]], 'WORD', Lh, None),
    ]
    out = [sk.item('sk:' + n, ['cat', family.PREAMBLE, sp], c, L, 'C03', cost=5, lmin=0, win=w)
           for n, sp, c, L, w in S]
    out.append(sk.item('sk:twin', ['cat', A, ' ', ['unknown', 'zzfoo', T('x@H@')], ' ', B], 'WORD', 1,
                       'C03', twin=True))
    return out


# environments with their standard optional arguments: nothing of the arguments may show
EXTRA = {
    'minipage_pos': ['cat', A, ' ', ['G', '\\begin{minipage}[t]{0.5\\textwidth}', None], '\n', B, '\n',
                     ['G', '\\end{minipage}', None], ' ', A],
    'minipage_three_opts': ['cat', A, ' ', ['G', '\\begin{minipage}[c][3cm][t]{5cm}', None], '\n', B, '\n',
                            ['G', '\\end{minipage}', None], ' ', A],
    'bibitem_label': ['cat', A, '\n', ['G', '\\begin{thebibliography}{9}', None], '\n',
                      ['G', '\\bibitem{k}', None], ' ', B, '\n', ['G', '\\bibitem[Kn84]{knuth}', None], ' ', A,
                      '\n', ['G', '\\end{thebibliography}', None], '\n', B],
    # code listing holding a '$' (shell code): removed as a whole, nothing of it may show and
    # the text behind it is untouched -- open known finding KF-lstlisting (see DESIGN section 7)
    'lstlisting_dollar': ['cat', A, '\n', ['removed_env', 'lstlisting', '\necho $HOME\n'], '\n', B],
    # constructs standing at the very beginning of the text (token number 0)
    'skip_region_first': ['cat', ['skip_region', 'hidden words $'], A, ' ', B],
    'comment_first': ['cat', ['comment', ' hidden'], A, ' ', B],
    'label_first': ['cat', ['label', 'k'], A, ' ', B],
    # trial expansion of a heading holding a footnote and a construct whose handler evaluates
    # an argument itself
    'heading_footnote_hspace': ['cat', ['heading', ['cat', T('Sum'), ['footnote', T('Only prelim')], ' ',
                                 ['G', '\\hspace{1cm}', None], ' ', T('of results')]], '\n', A, ' ', B],
    'heading_footnote_phantom': ['cat', ['heading', ['cat', T('Sum'), ['footnote', T('Only prelim')], ' ',
                                  ['G', '\\phantom{xx}', None], ' ', T('of results')], 'subsection'], '\n', A],
    # detached flows collected before a file is read with \LTinput
    'footnote_then_ltinput': ['cat', A, ['footnote', T('Early foot')], ' ',
                              ['G', '\\LTinput{/verif/vf/data/defs_mo.tex}', None], ' ', B,
                              ['footnote', T('Late foot')], ' ', A],
    'tabular_pos': ['cat', A, ' ', ['G', '\\begin{tabular}[t]{ll}', None], T('a'), ' ', ['special', '&'],
                    ' ', B, ['G', '\\end{tabular}', None], ' ', A],
}


def items(tier, seed):
    tw = {'h': 'fam', 'name': 'twin', 'spec': family.doc(family.ATOMS[0]), 'tag': 'C03',
          'twin': True}
    ex = [{'h': 'fam', 'name': 'extra:' + n, 'spec': sp, 'tag': 'C03', 'opts': {'pack': '*'}}
          for n, sp in EXTRA.items()]
    return fc.items(tier, seed, 'C03', [tw] + ex) + sketches(tier)


def run_item(item):
    return (sk if item['h'] == 'sk' else fc).run_item(item)


def replay(rep):
    return (sk if rep['item']['h'] == 'sk' else fc).replay(rep)
