"""shared E1-off harness for C02 / C03 / C04: document family x symbolic offsets, judged by the
event oracle; each property reports the findings carrying its own tag"""
from vf import family, harness, offrun, oracle, srcmodel


def items(tier, seed, tag, extra=()):
    out = []
    for name, spec in family.family(tier, seed):
        out.append({'h': 'fam', 'name': name, 'spec': spec, 'tag': tag})
    out += list(extra)
    return out


def make_oracle(node, tag, twin=False):
    def orc(S, d, e, doc, flat, diags):
        lab, plain, cm = flat[0]
        fails = oracle.check(node, plain, cm, d=d)
        if twin:
            # vacuity twin: demand something false (every copied character one further right)
            return 'TWIN ' + tag if plain else None
        mine = [m for t, m in fails if t == tag]
        if diags and tag == 'C08':
            mine.append('unexpected diagnostic on a well-formed document: %r' % (diags,))
        return (tag + ' ' + mine[0]) if mine else None
    return orc


def build(item):
    node = family.build(item['spec'])
    S = node.src
    pre_ok, suf_ok = srcmodel.rebase_ok(S)
    return offrun.make(S, dict(item.get('opts') or family.OPTS), False, make_oracle(node, item['tag'],
                                                                bool(item.get('twin'))),
                       pre_ok, suf_ok)


def run_item(item):
    prop, concrete = build(item)
    return harness.run(prop, concrete, item, budget_s=harness.budget(item, 60))


def replay(rep):
    prop, concrete = build(rep['item'])
    return concrete(rep['witness'])
