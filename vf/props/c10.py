"""C10 -- inline maths becomes one rotating placeholder with its punctuation, nothing else."""
from vf import family, harness, offrun, oracle, sketch, srcmodel, yal
from vf.docs import INLINE
from vf.family import T

ID = 'C10'
FUNCTIONS = ['yalafi.mathparser.MathParser.expand_inline_math / expand_math_section / '
             'detect_math_parts / replace_section', 'yalafi.mathparser.MathPartToken.*',
             'yalafi.parameters.Parameters (math_punctuation, math_space, math_ignore, '
             'math_repl_inline)', 'yalafi.tex2txt.tex2txt']
RULE = ('body: A $h$ B and A \\(h\\) B with the formula body symbolic (every character except '
        '$ \\ % { } # & [ ], length <= L) -- the rendering must be exactly one placeholder, the '
        'final punctuation mark, blanks only for leading/trailing maths space; atoms: symbolic '
        'choice of <= n maths atoms (letters, operators, sub/superscripts, fractions, unknown '
        'macros, maths spaces, punctuation); rot: documents with 2-9 formulas in text, '
        'arguments, items, footnotes, after operator-only formulas, per language (en/de/ru, '
        'multi-language mode) with symbolic surrounding offsets: i-th formula gets the '
        '(i mod 6)-th successor.')
BOUNDS = {'quick': 'body: L <= 2; atoms: n <= 3 of 22 atoms; rot: 14 documents',
          'thorough': 'body: L <= 3; atoms: n <= 4'}
OUTSIDE = 'formulas containing text macros (\\mbox, \\text: C11); formulas in headings are ' \
          'checked for rendering, rotation there see known findings / DESIGN.md'
ASSUMPTIONS = ['placeholder collections and maths-space list taken from the property / README']

PUNCT = '.,;:'
ATOMS = ['x', '1', '+', '=', '^{2}', '_{i}', '\\alpha ', '\\frac{a}{b}', '\\,', '~', '\\;', '.', ',',
         ';', ':', ' ', '\\le ', '\\cdot ', '\\zzunk{u}', '{y}', '\\quad ', '\\!']
MSPACE = {'\\,', '~', '\\;', '\\quad '}


def expect_plain(lang_coll, nth, lead, trail, punct):
    ph = lang_coll[(nth + 1) % len(lang_coll)]
    return 'A ' + (' ' if lead else '') + ph + punct + (' ' if trail else '') + ' B'


def judge(doc, flat, diags, fa, fb, lead, trail, punct, twin=False):
    lab, plain, cm = flat[0]
    want = expect_plain(INLINE['en'], 0, lead, trail, punct)
    if twin:
        want = want + 'x'
    if plain != want:
        return 'C10 %r is rendered as %r, expected %r' % (doc, plain, want)
    for k in range(2, len(plain) - 2):
        if not (fa < cm[k] <= fb):
            return 'C10 character %r of the rendering of %r is mapped to %d, outside the ' \
                   'formula %d..%d' % (plain[k], doc, cm[k], fa + 1, fb)
    if diags:
        return 'C10 diagnostic %r for %r' % (diags, doc)
    return None


def items(tier, seed):
    out = []
    L = 2 if tier == 'quick' else 3
    for delim in (0, 1):
        for ln in range(1, L + 1):
            out.append({'h': 'body', 'delim': delim, 'L': ln, 'cost': 30 ** ln,
                        'budget': 600 if ln < 3 else 3000})
    n = 3 if tier == 'quick' else 4
    for first in range(len(ATOMS)):
        out.append({'h': 'atoms', 'first': first, 'n': n, 'cost': 20})
    for name in ROT:
        out.append({'h': 'rot', 'name': name, 'cost': 3})
    for name in ROTML:
        out.append({'h': 'rotml', 'name': name})
    out.append({'h': 'body', 'delim': 0, 'L': 1, 'twin': True})
    out.append({'h': 'rot', 'name': 'row9', 'twin': True})
    return out


DELIMS = [('$', '$'), ('\\(', '\\)')]


def build_body(item):
    a, b = DELIMS[item['delim']]
    pre, post = 'A ' + a, b + ' B'
    twin = bool(item.get('twin'))

    def orc(h0, doc, flat, diags):
        core = h0.strip()
        if not ''.join(core.split()).strip('~'):
            return None                      # no maths material (only ties / blanks): outside the statement
        lead = h0.lstrip().startswith('~')
        trail = h0.rstrip().endswith('~')
        last = core.rstrip('~ ').rstrip()[-1:] if core.rstrip('~ ') else ''
        punct = last if last in PUNCT else ''
        return judge(doc, flat, diags, len(pre) - len(a), len(pre) + len(h0) + len(b), lead, trail,
                     punct, twin)
    return sketch.make(pre, post, 'MATH', item['L'], {}, orc, lmin=item['L'])


def build_atoms(item):
    first, n = item['first'], item['n']
    E = len(ATOMS)
    twin = bool(item.get('twin'))

    def run(idx):
        atoms = [ATOMS[first]] + [ATOMS[i] for i in idx if i < E]
        vis = [a for a in atoms if a not in (' ', '\\!')]
        if not [a for a in vis if a not in MSPACE]:
            return None
        body = ''.join(atoms)
        lead = bool(vis) and vis[0] in MSPACE
        trail = bool(vis) and vis[-1] in MSPACE
        core = [a for a in vis if a not in MSPACE]
        # last character of the formula text (maths space at the end does not count)
        k = len(vis) - 1
        while k >= 0 and vis[k] in MSPACE:
            k -= 1
        last = vis[k][-1] if k >= 0 else ''
        punct = last if last in PUNCT else ''
        for (a, b) in DELIMS:
            doc = 'A ' + a + body + b + ' B'
            (plain, cm), diags, err = yal.run_native(doc, yal.Options())
            r = judge(doc, [('', plain, cm)], diags, 2, 2 + len(a) + len(body) + len(b), lead, trail,
                      punct, twin)
            if r:
                return r
        return None

    def pre_ok(idx):
        ok = all(0 <= i <= E for i in idx)
        for x, y in zip(idx, idx[1:]):
            if x == E and y != E:
                ok = False
        return ok

    def prop(a: int, b: int, c: int):
        from vf import driver as D
        idx = [a, b, c]
        if not pre_ok(idx[:n - 1]) or any(x != E for x in idx[n - 1:]):
            return D.SKIP
        tab = list(range(E + 1))
        k = [tab[x] for x in idx]
        with D.NoTracing():
            return run([int(x) for x in k]) or True

    def concrete(w):
        idx = [w['a'], w['b'], w['c']]
        return run(idx) if pre_ok(idx) else None
    return prop, concrete


def M(body, nth, lang='en', delims=('$', '$')):
    return ['inline_math', body, lang, list(delims), nth]


ROT = {
    'row9': (['cat'] + sum([[M('x_%d' % i, i), ' ', T('w%d' % i), ' '] for i in range(9)], []), {}, False),
    'ops_only': (['cat', M('a', 0), ' ', M('=', 1), ' ', M('b', 2), ' ', M('\\le', 3), ' ', M('<', 4),
                  ' ', M('c', 5), ' ', M(':', 6), ' ', M('\\cdot\;', 7), ' ', M('d', 8)], {}, False),
    'punct': (['cat', M('a.', 0), ' ', M('b,', 1), ' ', M('c;\\,', 2), ' ', M('.', 3), ' ', M('d', 4)],
              {}, False),
    'in_args': (['cat', M('a', 0), ' ', ['unknown', 'textbf', ['cat', T('b '), M('b', 1)]], ' ',
                 ['passthru', 'textcolor', M('c', 2), '{red}'], ' ', M('d', 3)], {'pack': 'xcolor'},
                False),
    'footnote': (['cat', M('a', 0), ['footnote', ['cat', T('f '), M('b', 1), ' ', M('c', 2)]], ' ',
                  M('d', 3)], {}, False),
    'items': (['cat', M('a', 0), ' ', ['items', 'enumerate', [[None, M('b', 1)], [None, ['cat', T('x '),
               M('c', 2)]]]], ' ', M('d', 3)], {}, False),
    'item_label': (['cat', ['items', 'itemize', [[M('a', 0), M('b', 1)]]], ' ', M('c', 2)], {}, False),
    'macro_arg': (['cat', ['defnode', family.FOO], ['call', family.FOO, M('a', 0), M('b', 1)], ' ',
                   M('c', 2)], {}, False),
    'theorem': (['cat', ['newtheorem'], M('a', 0), ' ', ['theorem', ['cat', '\n', M('b', 2), '\n'],
                 'thm', 'Theorem', M('c', 1)], ' ', M('d', 3)], {}, False),
    'german': (['cat'] + sum([[M('x', i, 'de'), ' '] for i in range(7)], []), {'lang': 'de'}, False),
    'russian': (['cat'] + sum([[M('x', i, 'ru'), ' ', T('ж'), ' '] for i in range(7)], []),
                {'lang': 'ru'}, False),
    'paren': (['cat', M('a', 0, 'en', ('\\(', '\\)')), ' ', M('b', 1), ' ', M('c', 2, 'en',
               ('\\(', '\\)'))], {}, False),
    'display_between': (['cat', M('a', 0), ' ', T('x'), '\n', ['G', '\\[ u = v \\]', 'V-V-V'], '\n',
                         M('b', 1)], {}, False),
    # environments nested in an inline formula, with maths behind their \end
    'nested_env': (['cat', M('\\begin{pmatrix} a \\\\ b \\end{pmatrix} x', 0), ' ',
                    M('\\left(\\begin{array}{c} u \\end{array}\\right).', 1), ' ', M('c', 2), ' ',
                    M('\\begin{zzunknown} d \\end{zzunknown} + e,', 3), ' ', M('f', 4)], {'pack': 'amsmath'},
                   False),
    'heading': (['cat', M('a', 0), ' ', ['heading', ['cat', T('T '), M('b', 1)]], '\n', M('c', 2)], {},
                False),
}


ROTML = {
    # name: (document, main language option): formulas per language get successive placeholders
    'heading_foreign': ('\\usepackage[english]{babel}\n\\foreignlanguage{german}{Eins $a$ zwei} A $b$ B\n'
                        '\\section{T \\foreignlanguage{german}{drei $c$ vier} $d$}\nC '
                        '\\foreignlanguage{german}{fünf $e$ sechs} $f$ D', 'en-GB'),
    'select_back': ('\\usepackage[english]{babel}\nA $a$ \\selectlanguage{russian} Ж $b$ ж $c$\n'
                    '\\selectlanguage{english} B $d$ \\subsection*{H \\foreignlanguage{russian}{ж $e$}} $f$',
                    'en-GB'),
    'footnote_foreign': ('\\usepackage[english]{babel}\nA $a$\\footnote{F \\foreignlanguage{german}{eins $b$} $c$} '
                         '\\foreignlanguage{german}{zwei $d$} $e$', 'en-GB'),
    'phantom': ('A $a$ \\phantom{$b$} \\hspace{$c$} $d$ \\vphantom{$e$} $f$', 'en-GB'),
}


def rotml_check(name, twin=False):
    import re
    doc, main = ROTML[name]
    res, diags, err = yal.run_native(doc, yal.mkopts({'lang': main, 'pack': '*'}), True)
    from vf.offrun import flatten
    found = []
    for lab, plain, cm in flatten(res):
        lang = lab.split('#')[0][:2]
        coll = INLINE.get(lang, INLINE['en'])
        for m in re.finditer('|'.join(re.escape(x) for x in coll), plain):
            found.append((cm[m.start()], lang, m.group(0)))
    found.sort()
    seen = {}
    for pos, lang, ph in found:
        coll = INLINE.get(lang, INLINE['en'])
        key = 'cyr' if lang == 'ru' else 'lat'      # en and de share one collection object? no:
        key = lang
        i = seen.get(key, 0)
        want = coll[(i + 1) % len(coll)]
        if twin:
            want = coll[i % len(coll)]
        if ph != want:
            return 'C10 %r: formula at offset %d (%s) is rendered as %s, the %d-th formula of ' \
                   'that language should get %s; all: %r' % (doc, pos, lang, ph, i + 1, want, found)
        seen[key] = i + 1
    nform = doc.count('$') // 2
    if len(found) > nform:
        return 'C10 %r: %d placeholders for %d formulas' % (doc, len(found), nform)
    return None


def build_rot(item):
    spec, opts, ml = ROT[item['name']]
    node = family.build(spec)
    S = node.src
    twin = bool(item.get('twin'))

    def orc(_S, d, e, doc, flat, diags):
        lab, plain, cm = flat[0]
        if twin:
            return 'TWIN'
        fails = oracle.check(node, plain, cm, d=d, gen_tag='C10')
        if fails:
            return 'C10 ' + fails[0][1]
        return None
    pre_ok, suf_ok = srcmodel.rebase_ok(S)
    return offrun.make(S, opts, ml, orc, pre_ok, suf_ok)


def build(item):
    return {'body': build_body, 'atoms': build_atoms, 'rot': build_rot}[item['h']](item)


def run_item(item):
    if item['h'] == 'rotml':
        r = rotml_check(item['name'], bool(item.get('twin')))
        return harness.smt_result(1, 0 if r else 1, [{'witness': {}, 'msg': r}] if r else [], 0, 0.0,
                                  [ROTML[item['name']][0]], item)
    prop, concrete = build(item)
    return harness.run(prop, concrete, item, budget_s=harness.budget(item, 200), per_path_s=30)


def replay(rep):
    if rep['item']['h'] == 'rotml':
        return rotml_check(rep['item']['name'])
    prop, concrete = build(rep['item'])
    return concrete(rep['witness'])
