"""C14 -- a proofreader match is reported at the flagged word in the LaTeX file."""
import copy
import html
import io
import json
import re

from vf import harness, shellenv, yal

ID = 'C14'
FUNCTIONS = ['yalafi.shell.proofreader.run_proofreader_options', 'yalafi.shell.utils.'
             'map_match_position', 'yalafi.shell.gentext.output_text_report',
             'yalafi.shell.genjson.output_json', 'yalafi.shell.genxml.output_xml_report',
             'yalafi.shell.genhtml.generate_html', 'yalafi.shell.server.Handler.create_message',
             'yalafi.shell.shell (option set-up statements, by AST slice)']
RULE = ('item = (document, shell options); symbolic: index of the submitted part that gets the '
        'match, offset and length of the flagged span (constrained to spans copied contiguously '
        'from the source), ml_rule_threshold (unbounded); a second fixed match tests ordering; '
        'every output format is parsed and compared with the reference line/column/length.')
BOUNDS = {'quick': '6 documents (several lines, non-ASCII, footnote, macros, 5-part '
                   'multi-language split) ; span length <= 8; all thresholds',
          'thorough': 'same documents, span length <= 14, both match orders'}
OUTSIDE = 'the proofreader process and the HTTP layer (stubbed: run_languagetool returns the ' \
          'matches of the harness); spans that are not contiguous copies of source text'
ASSUMPTIONS = ['run_languagetool stub returns well-formed matches with a LanguageTool-style '
               'context', 'reference line/column = count of newlines before the offset + 1 / '
               'distance to the last newline + 1']

DOCS = [
    ('two_lines', 'One two\nthree four five.\nSix\n', []),
    ('unicode_foot', 'Größe Kaffeé\\footnote{Fuß noté hier} zwei\ndreié Ende.\n', []),
    ('macros', 'A \\textbf{bold} $x$ end \\emph{it\nalic} fin.\n', []),
    ('ml5', '\\usepackage[english]{babel}\nOne \\foreignlanguage{german}{zwei drei vier funf} two.\n'
            '\\foreignlanguage{french}{un deux trois quatre} three\n', ['--multi-language']),
    ('ml_short', '\\usepackage[english]{babel}\nOne \\foreignlanguage{german}{zwei} two '
                 '\\selectlanguage{german}Drei vier.\n', ['--multi-language']),
    ('ml_adjacent', '\\usepackage[english]{babel}\nOne worda \\foreignlanguage{german}{wortb}'
                    '\\foreignlanguage{french}{motc est la fin de tout} worde two.\n', ['--multi-language']),
    ('indent', '  Lead\n\tTabbed wörd\n\n   Last\n', []),
    ('ctrl', 'Page\x0c one\u2028two\x0b three\x85\n% \x1c \x1d \x1e\nFour five.\n', []),
]


# independent of the filter: the language in force at some words of the multi-language documents
WORDLANG = {'zwei': 'de-DE', 'drei': 'de-DE', 'vier': 'de-DE', 'funf': 'de-DE', 'un': 'fr', 'deux': 'fr',
            'trois': 'fr', 'quatre': 'fr', 'One': 'en-GB', 'two': 'en-GB', 'two.': 'en-GB', 'three': 'en-GB',
            'Drei': 'de-DE', 'vier.': 'de-DE', 'worda': 'en-GB', 'wortb': 'de-DE', 'motc': 'fr', 'est': 'fr',
            'fin': 'fr', 'tout': 'fr', 'worde': 'en-GB'}


def runs_of(plain, cm, tex):
    """run id per plain index: maximal stretches copied contiguously from the source"""
    rid = [-1] * len(plain)
    cur = -1
    for k, c in enumerate(plain):
        ok = (not c.isspace()) and 1 <= cm[k] <= len(tex) and tex[cm[k] - 1] == c
        if ok and k and rid[k - 1] >= 0 and cm[k] == cm[k - 1] + 1:
            rid[k] = rid[k - 1]
        elif ok:
            cur += 1
            rid[k] = cur
    return rid


def mk_match(plain, o, l, rule='R1'):
    a = max(0, o - 10)
    return {'offset': o, 'length': l, 'message': 'msg ' + rule,
            'replacements': [{'value': 'repl'}],
            'context': {'text': plain[a:o + l + 10].replace('\n', ' '), 'offset': o - a,
                        'length': l},
            'rule': {'id': rule, 'category': {'name': 'Cat'}}}


def linecol(tex, off):
    lin = tex.count('\n', 0, off) + 1
    col = off - (tex.rfind('\n', 0, off) + 1) + 1
    return lin, col


class _Null:
    def __enter__(self):
        return self

    def __exit__(self, *a):
        return False


def native_filter(env):
    """the filter's result for the (concrete) document does not depend on the symbolic
    variables: the real tex2txt is executed natively (outside the tracer), once per call"""
    real = yal.tex2txt.tex2txt

    def t2t(latex, opts, multi_language=False, modify_parms=None):
        try:
            from crosshair.core_and_libs import NoTracing
            from crosshair.core import deep_realize
        except ImportError:
            return real(latex, opts, multi_language, modify_parms)
        with NoTracing():
            if modify_parms is not None:
                thr = deep_realize(env.cmdline.ml_continue_threshold)

                def mp(parms):
                    parms.ml_continue_thresh = thr
                return real(latex, opts, multi_language, mp)
            return real(latex, opts, multi_language, None)
    return t2t


def judge(env, tex, lang, parts, pi, o, l, T, fixed, nt=_Null):
    try:
        return _judge(env, tex, lang, parts, pi, o, l, T, fixed, nt)
    except SystemExit as ex:
        # the answer is well-formed and in range: the shell has no reason to give up
        return 'C14 the shell stopped (exit status %r) on a well-formed answer' % (ex.code,)


def _judge(env, tex, lang, parts, pi, o, l, T, fixed, nt=_Null):
    """run the real aggregation + all generators for a match (o, l) in part pi plus a fixed
    second match; compare with the reference"""
    cmd = env.cmdline
    cmd.ml_rule_threshold = T
    cmd.ml_disable = 'MLRULE'
    env.calls.clear()
    fpi, fo, fl = fixed

    def answer(plain, language, n):
        ms = []
        if n == pi:
            ms.append(mk_match(plain, o, l, 'R1'))
        if n == fpi:
            ms.append(mk_match(plain, fo, fl, 'R2'))
        return ms
    env.answer = answer
    env.proofreader.tex2txt.tex2txt = native_filter(env)
    try:
        tex_r, plain_tot, cm_tot, matches = env.proofreader.run_proofreader_options(
            tex, lang, 'WS', '', '', '', [])
    finally:
        env.proofreader.tex2txt.tex2txt = yal.tex2txt.tex2txt
    # --- submission: each part under its own language, rule options by threshold
    if len(env.calls) != len(parts):
        return 'C14 %d parts submitted, expected %d' % (len(env.calls), len(parts))
    for n, (c, (plang, pp, pcm)) in enumerate(zip(env.calls, parts)):
        if c['plain'] != pp or c['language'] != plang:
            return 'C14 part %d submitted as %r/%r, expected %r/%r' % (
                n, c['language'], c['plain'][:30], plang, pp[:30])
        if cmd.multi_language:
            for w in c['plain'].split():
                if WORDLANG.get(w, c['language']) != c['language']:
                    return 'C14 the word %r is submitted under the language code %r, the ' \
                           'language in force there is %r' % (w, c['language'], WORDLANG[w])
        exp_dis = 'WS,MLRULE' if (cmd.multi_language and len(pp.split()) <= T) else 'WS'
        if c['disable'] != exp_dis:
            return 'C14 part %d (%d words) checked with --disable %r, expected %r (threshold ' \
                   '%d)' % (n, len(pp.split()), c['disable'], exp_dis, T)
    with nt():
        try:
            from crosshair.core import deep_realize
            matches, plain_tot, cm_tot, pi, o, l = deep_realize(
                (matches, plain_tot, cm_tot, pi, o, l))
        except ImportError:
            pass
        return _judge_reports(env, tex, lang, parts, pi, o, l, fixed, matches, plain_tot, cm_tot)


def _judge_reports(env, tex, lang, parts, pi, o, l, fixed, matches, plain_tot, cm_tot):
    # --- reference locations
    exp = {}
    for rule, (qi, qo, ql) in (('R1', (pi, o, l)), ('R2', fixed)):
        pcm = parts[qi][2]
        off = pcm[qo] - 1
        exp[rule] = (off, ql, tex[off:off + ql])
    order = sorted(exp, key=lambda r: exp[r][0])
    if [m['rule']['id'] for m in matches] != order and exp['R1'][0] != exp['R2'][0]:
        return 'C14 messages not ordered by LaTeX position: %r, expected %r' % (
            [m['rule']['id'] for m in matches], order)
    jget = env.vars.json_get
    # --- text report
    out = io.StringIO()
    env.gentext.output_text_report(tex, plain_tot, cm_tot, copy.deepcopy(matches), 'f.tex', out)
    txt = out.getvalue()
    got = re.findall(r'\d+\.\) Line (\d+), column (\d+), Rule ID: (R\d)', txt)
    for lin, col, rule in got:
        e = linecol(tex, exp[rule][0])
        if (int(lin), int(col)) != e:
            return 'C14 text report: %s at line %s column %s, expected %r (word %r)' % (
                rule, lin, col, e, exp[rule][2])
    if sorted(r for _a, _b, r in got) != ['R1', 'R2']:
        return 'C14 text report lists %r' % (got,)
    blocks = txt.split('=== f.tex ===\n')[1:]
    for b in blocks:
        ls = b.split('\n')
        rule = re.search(r'Rule ID: (R\d)', ls[0]).group(1)
        ctx, mark = ls[3], ls[4]
        a, n = len(mark) - len(mark.lstrip(' ')), mark.count('^')
        word = exp[rule][2].replace('\n', ' ')
        if ctx[a:a + n] != word:
            return 'C14 text report: excerpt marks %r, flagged word is %r' % (ctx[a:a + n], word)
    # --- json
    out = io.StringIO()
    env.genjson.output_json(tex, plain_tot, cm_tot, copy.deepcopy(matches), jget, 'f.tex', out)
    for m in json.loads(out.getvalue())['matches']:
        off, ln, word = exp[m['rule']['id']]
        lin, col = linecol(tex, off)
        elin, ecol = linecol(tex, off + ln - 1)
        pv = m['priv']
        if (m['offset'], m['length']) != (off, ln) or (pv['fromy'], pv['fromx']) != (
                lin - 1, col - 1) or (pv['toy'], pv['tox']) != (elin - 1, ecol):
            return 'C14 json: %s offset/length %r priv %r, expected offset %d length %d from ' \
                   '(%d,%d) to (%d,%d)' % (m['rule']['id'], (m['offset'], m['length']), pv, off,
                                           ln, lin - 1, col - 1, elin - 1, ecol)
    # --- xml and xml-b
    for bytemode in (False, True):
        out = io.StringIO()
        env.genxml.output_xml_report(tex, plain_tot, cm_tot, copy.deepcopy(matches), bytemode,
                                     'f.tex', out)
        errs = re.findall(r'<error ([^>]*)/>', out.getvalue())
        if len(errs) != 2:
            return 'C14 xml: %d error elements' % len(errs)
        for e in errs:
            at = dict(re.findall(r'(\w+)="([^"]*)"', e))
            rule = 'R1' if 'R1' in html.unescape(at['msg']) else 'R2'
            off, ln, word = exp[rule]
            lin, col = linecol(tex, off)
            elin, ecol = linecol(tex, off + ln - 1)
            ls = tex.rfind('\n', 0, off) + 1
            els = tex.rfind('\n', 0, off + ln - 1) + 1
            if bytemode:
                fx = len(tex[ls:off].encode())
                tx = len(tex[els:off + ln].encode())
            else:
                fx, tx = col - 1, ecol
            ctx = html.unescape(at['context'])
            co, cl = int(at['contextoffset']), int(at['errorlength'])
            marked = (ctx.encode()[co:co + cl].decode(errors='replace') if bytemode
                      else ctx[co:co + cl])
            if marked != word.replace('\n', ' '):
                return 'C14 xml%s: context marks %r, flagged word is %r' % (
                    '-b' if bytemode else '', marked, word)
            g = (int(at['fromy']), int(at['fromx']), int(at['toy']), int(at['tox']))
            if g != (lin - 1, fx, elin - 1, tx):
                return 'C14 xml%s: %s reported from/to %r, expected %r (word %r)' % (
                    '-b' if bytemode else '', rule, g, (lin - 1, fx, elin - 1, tx), word)
    # --- html
    title, anchor, body, n = env.genhtml.generate_html(tex, cm_tot, copy.deepcopy(matches),
                                                       'f.tex')
    spans = re.findall(r'<span style="[^"]*" title="([^"]*)">(.*?)</span>', body, re.S)
    seen = {}
    for ttl, inner in spans:
        t = html.unescape(ttl.replace('&ensp;', ' '))
        rule = 'R1' if 'msg R1' in t else 'R2'
        txt_in = html.unescape(re.sub(r'<[^>]*>', '', inner).replace('&ensp;', ' '))
        seen[rule] = seen.get(rule, '') + txt_in
        lin = int(re.search(r'Line (\d+)', t).group(1))
        if lin != linecol(tex, exp[rule][0])[0]:
            return 'C14 html: %s titled line %d, expected %d' % (rule, lin,
                                                                 linecol(tex, exp[rule][0])[0])
    for rule in exp:
        w = exp[rule][2].replace('\n', '').replace('\t', ' ' * 8)
        if seen.get(rule, '').replace('\n', '') != w:
            return 'C14 html: %s highlights %r, flagged word is %r' % (rule, seen.get(rule), w)
    # --- server emulation
    class Srv:
        my_lt_options = []
        my_option_map = env.vars.lt_option_map
        my_proofreader = staticmethod(env.proofreader.run_proofreader_options)
    h = env.server.Handler.__new__(env.server.Handler)
    h.server = Srv()
    env.calls.clear()
    env.cmdline.ml_rule_threshold = 2
    msg = h.create_message({'language': [lang], 'text': [tex], 'disabledRules': ['WS']})
    for m in msg['matches']:
        off, ln, word = exp[m['rule']['id']]
        if (m['offset'], m['length']) != (off, ln):
            return 'C14 server: %s offset/length %r, expected %r' % (
                m['rule']['id'], (m['offset'], m['length']), (off, ln))
    if len(msg['matches']) != 2:
        return 'C14 server: %d matches' % len(msg['matches'])
    return None


def setup(item):
    name, tex, argv = next(d for d in DOCS if d[0] == item['doc'])
    env = shellenv.Env(argv + ['f.tex'])
    lang = 'en-GB'
    opts = yal.Options(char=True, lang=lang, pack='*')
    ml = '--multi-language' in argv
    if ml:
        def mp(p):
            p.ml_continue_thresh = env.cmdline.ml_continue_threshold
        res, _d, _e = yal.run_native(tex, opts, True, mp)
        parts = [(lg, p[0], p[1]) for lg in res for p in res[lg] if p[0].strip()]
    else:
        res, _d, _e = yal.run_native(tex, opts)
        parts = [(lang, res[0], res[1])]
    rids = [runs_of(p, cm, tex) for _l, p, cm in parts]
    return env, tex, lang, parts, rids


OWN_TEX = ('\\usepackage[english]{babel}\nOne z two.\n\\foreignlanguage{german}{eins w zwei drei vier funf}'
           ' three q $a$ Four.\n\\selectlanguage{german}Fünf v sechs.\n')


def own_check(T, twin=False):
    """messages of the shell's own checks (--single-letters, --equation-punctuation) in
    multi-language mode: each must be located at its letter / placeholder in the LaTeX file"""
    env = shellenv.Env(['--multi-language', '--single-letters', 'x||', '--equation-punctuation',
                        'inline', 'f.tex'])
    env.cmdline.ml_rule_threshold = T
    env.answer = lambda plain, language, n: []
    env.proofreader.tex2txt.tex2txt = native_filter(env)
    try:
        tex, plain_tot, cm_tot, matches = env.proofreader.run_proofreader_options(
            OWN_TEX, 'en-GB', 'WS', '', '', '', [])
    finally:
        env.proofreader.tex2txt.tex2txt = yal.tex2txt.tex2txt
    out = io.StringIO()
    env.genjson.output_json(OWN_TEX, plain_tot, cm_tot, copy.deepcopy(matches), env.vars.json_get,
                            'f.tex', out)
    got = sorted((m['offset'], m['rule']['id']) for m in json.loads(out.getvalue())['matches'])
    exp = sorted([(OWN_TEX.index(' %s ' % c) + 1, 'PRIVATE::SINGLE_LETTER') for c in 'zwqv'])
    if twin:
        exp = exp[1:]
    single = [g for g in got if g[1] == 'PRIVATE::SINGLE_LETTER']
    if single != exp:
        return 'C14 own single-letter messages at %r, the letters stand at %r' % (single, exp)
    for off, rid in got:
        fa = OWN_TEX.index('$a$')
        if rid == 'PRIVATE::EQUATION_PUNCTUATION' and not (fa <= off < fa + 3):
            return 'C14 own equation message located at %r' % OWN_TEX[off:off + 6]
    offs = [m['offset'] for m in json.loads(out.getvalue())['matches']]
    if offs != sorted(offs):
        return 'C14 own messages not ordered by LaTeX position: %r' % offs
    return None


def items(tier, seed):
    out = [{'h': 'own'}, {'h': 'own', 'twin': True}]
    for name, tex, argv in DOCS:
        out.append({'h': 'loc', 'doc': name, 'L': 8 if tier == 'quick' else 14, 'cost': 5})
    out.append({'h': 'loc', 'doc': 'two_lines', 'L': 3, 'twin': True})
    return out


def build_own(item):
    twin = bool(item.get('twin'))

    def prop(T: int):
        return own_check(T, twin) or True

    def concrete(w):
        return own_check(w['T'], twin)
    return prop, concrete


def build(item):
    if item['h'] == 'own':
        return build_own(item)
    env, tex, lang, parts, rids = setup(item)
    L = item['L']
    twin = bool(item.get('twin'))
    # fixed second match: first word of the last part
    fpi = len(parts) - 1
    fo = next(k for k, r in enumerate(rids[fpi]) if r >= 0)
    fl = 1
    while fo + fl < len(rids[fpi]) and rids[fpi][fo + fl] == rids[fpi][fo] and fl < 4:
        fl += 1
    fixed = (fpi, fo, fl)
    lens = [len(p) for _l, p, _c in parts]

    try:
        from crosshair.core_and_libs import NoTracing as nt
    except ImportError:
        nt = _Null

    def check(pi, o, l, T):
        if twin:
            o = o + 1 if o + 1 + l <= lens[pi] and rids[pi][o + 1] == rids[pi][o + l] >= 0 else o
            r = judge(env, tex, lang, parts, pi, o, l, T, fixed, nt)
            return 'TWIN' if r is None else r
        return judge(env, tex, lang, parts, pi, o, l, T, fixed, nt)

    def prop(pi: int, o: int, l: int, T: int):
        from vf import driver as D
        if not (0 <= pi < len(parts)) or not (1 <= l <= L) or o < 0:
            return D.SKIP
        if o + l > lens[pi]:
            return D.SKIP
        if rids[pi][o] < 0 or rids[pi][o] != rids[pi][o + l - 1]:
            return D.SKIP
        return check(pi, o, l, T) or True

    def concrete(w):
        pi, o, l, T = w['pi'], w['o'], w['l'], w['T']
        if not (0 <= pi < len(parts)) or not (1 <= l <= L) or o < 0 or o + l > lens[pi] \
                or rids[pi][o] < 0 or rids[pi][o] != rids[pi][o + l - 1]:
            return None
        return check(pi, o, l, T)
    return prop, concrete


def run_item(item):
    prop, concrete = build(item)
    return harness.run(prop, concrete, item, budget_s=harness.budget(item, 240), per_path_s=30,
                       validate=True)


def replay(rep):
    prop, concrete = build(rep['item'])
    return concrete(rep['witness'])
