"""shared E1-chr harness: document spec with one hole @H@, judged by the event oracle"""
from vf import family, harness, oracle, sketch


def item(name, spec, cls, L, tag, lmin=0, splice=True, opts=None, twin=False, cost=1, win=None):
    return {'h': 'sk', 'name': name, 'spec': spec, 'cls': cls, 'L': L, 'lmin': lmin,
            'splice': splice, 'opts': opts if opts is not None else dict(family.OPTS),
            'tag': tag, 'twin': twin, 'cost': cost, 'win': win}


def build(it):
    pre, post = sketch.split(it['spec'])
    tag = it['tag']

    def orc(h0, doc, flat, diags):
        node = family.build(sketch.subst(it['spec'], h0))
        assert node.src == doc, (node.src, doc)
        lab, plain, cm = flat[0]
        fails = oracle.check(node, plain, cm)
        mine = [m for t, m in fails if t == tag or tag == '*']
        return (tag + ' ' + mine[0]) if mine else None
    return sketch.make(pre, post, it['cls'], it['L'], it['opts'], orc, lmin=it.get('lmin', 0),
                       twin=bool(it.get('twin')), splice=it.get('splice', True),
                       win=tuple(it['win']) if it.get('win') else None)


def run_item(it):
    prop, concrete = build(it)
    return harness.run(prop, concrete, it, budget_s=harness.budget(it, 150), per_path_s=30)


def replay(rep):
    prop, concrete = build(rep['item'])
    return concrete(rep['witness'])
