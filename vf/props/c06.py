"""C06 -- plain prose is a fixed point; special sequences follow the documented table."""
from vf import harness, sketch, yal

ID = 'C06'
FUNCTIONS = ['yalafi.tex2txt.tex2txt', 'yalafi.scanner.Scanner.next_token (special tokens, '
             'longest first)', 'yalafi.parser.Parser.expand_sequence (special token branch)',
             'yalafi.parameters.Parameters.special_tokens']
RULE = ('prose: the whole filter on a fully symbolic string (every code point except \\ % # $ { '
        '}) of length <= N, compared with a reference greedy longest-match tokenizer over the '
        'documented table (text and positions); atoms: A . atoms . B with a symbolic choice of '
        '<= n atoms among the special sequences, their prefixes, letters, blanks, line breaks.')
BOUNDS = {'quick': 'prose: N <= 3; atoms: n <= 3 of 19 atoms', 'thorough': 'prose: N <= 4; atoms: n <= 4'}
OUTSIDE = 'longer strings; strings in which a special sequence stands on an otherwise blank ' \
          'line (that is C05)'
ASSUMPTIONS = ['table of special sequences taken from the property text']

NBSP, NNBSP = '\xa0', ' '
TABLE = {'---': '—', '--': '–', '``': '“', "''": '”', '~': NBSP, '&': ' ',
         '\\,': NNBSP, '\\%': '%', '\\&': '&', '\\$': '$', '\\#': '#', '\\_': '_', '\\{': '{',
         '\\}': '}', '\\\\': ' '}
KEYS = sorted(TABLE, key=lambda k: -len(k))
ATOMS = ['--', '-', '`', "'", '~', '&', 'a', ' ', '\n', '\\,', '\\%', '\\&', '\\$', '\\#', '\\_',
         '\\{', '\\}', '\\\\', '---', '*', '.']


PARTS = [[(1, 0x20)], [(0x21, 0x2C)], [(0x2D, 0x2D), (0x60, 0x60), (0x27, 0x27)], [(0x2E, 0x5F)],
         [(0x61, 0xFF)], [(0x100, 0x2FFFF)]]


def reference(s):
    out, pos = '', []
    i = 0
    while i < len(s):
        for k in KEYS:
            if s.startswith(k, i):
                out += TABLE[k]
                pos += [i + 1] * len(TABLE[k])
                i += len(k)
                break
        else:
            out += s[i]
            pos.append(i + 1)
            i += 1
    return out, pos


def excluded(s):
    """a special sequence that becomes blank on an otherwise blank line (C05's subject)"""
    def blank(t):
        # "blank" is the filter's notion (regular expression \\s: every Unicode space)
        return all(c.isspace() or c in '&~' for c in t)
    for line in s.split('\n'):
        if blank(line) and ('&' in line or '~' in line):
            return True
        t = line
        for k in ('\\\\', '\\,'):
            t = t.replace(k, '')
        if blank(t) and t != line:
            return True
    return False


def judge(doc, flat, twin=False):
    lab, plain, cm = flat[0]
    if excluded(doc):
        return None
    et, ep = reference(doc)
    if twin:
        ep = [p + 1 for p in ep]
    if plain != et:
        return 'C06 %r is rendered as %r, the table gives %r' % (doc, plain, et)
    if list(cm) != ep:
        return 'C06 %r: positions %r, expected %r' % (doc, list(cm), ep)
    return None


def items(tier, seed):
    assert sketch.covers('PROSE', PARTS)
    out = []
    N = 3 if tier == 'quick' else 4
    for n in range(0, N + 1):
        if n < 3:
            out.append({'h': 'prose', 'N': n, 'cost': 10 ** n, 'budget': 600})
        else:
            # partition by the first character: 6 work items
            for k in range(len(PARTS)):
                out.append({'h': 'prose', 'N': n, 'part': k, 'cost': 10 ** n,
                            'budget': 400 if n == 3 else 2400})
    na = 3 if tier == 'quick' else 4
    for first in range(len(ATOMS)):
        out.append({'h': 'atoms', 'first': first, 'n': na, 'cost': 20})
    out.append({'h': 'prose', 'N': 1, 'twin': True})
    out.append({'h': 'atoms', 'first': 0, 'n': 2, 'twin': True})
    return out


def build(item):
    twin = bool(item.get('twin'))
    if item['h'] == 'prose':
        N = item['N']

        def orc(h0, doc, flat, diags):
            if diags:
                return 'C06 diagnostic on plain prose %r: %r' % (doc, diags)
            return judge(doc, flat, twin)
        fr = PARTS[item['part']] if 'part' in item else None
        return sketch.make('', '', 'PROSE', N, {}, orc, lmin=N, splice=False, first_ranges=fr)
    first, n = item['first'], item['n']
    E = len(ATOMS)

    def text(idx):
        return 'A' + ATOMS[first] + ''.join(ATOMS[i] for i in idx if i < E) + 'B'

    def run(idx):
        doc = text(idx)
        (plain, cm), diags, err = yal.run_native(doc, yal.Options())
        if diags:
            return 'C06 diagnostic on %r: %r' % (doc, diags)
        return judge(doc, [('', plain, cm)], twin)

    def pre(idx):
        ok = all(0 <= i <= E for i in idx)
        for a, b in zip(idx, idx[1:]):
            if a == E and b != E:
                ok = False
        return ok

    def prop(a: int, b: int, c: int):
        from vf import driver as D
        if not pre([a, b, c][:n - 1]) or any(x != E for x in [a, b, c][n - 1:]):
            return D.SKIP
        tab = list(range(E + 1))
        idx = [tab[x] for x in (a, b, c)]
        with D.NoTracing():
            return run([int(x) for x in idx]) or True

    def concrete(w):
        idx = [w['a'], w['b'], w['c']]
        return run(idx) if pre(idx) else None
    return prop, concrete


def run_item(item):
    prop, concrete = build(item)
    return harness.run(prop, concrete, item, budget_s=harness.budget(item, 300), per_path_s=30)


def replay(rep):
    prop, concrete = build(rep['item'])
    return concrete(rep['witness'])
