"""C08 -- LaTeX problems yield the full error mark at the right place, and only then."""
from vf import family, harness, offrun, srcmodel
from vf.props import flow_common as fc

ID = 'C08'
FUNCTIONS = ['yalafi.utils.latex_error', 'yalafi.parser.Parser.arg_buffer', 'yalafi.parser.'
             'Parser.parser_work (skip comments)', 'yalafi.scanner.Scanner.scan_verb / '
             'scan_verbatim', 'yalafi.mathparser.MathParser.expand_math_section',
             'yalafi.parser.Parser.expand_accent', 'yalafi.handlers.h_load_defs',
             'yalafi.tex2txt.tex2txt']
RULE = ('fault: document with exactly one injected fault, symbolic comment text of length d '
        'before and e after it (so the fault is at every distance from the end of the text): '
        'exactly one diagnostic, its line/column = those of the fault offset, complete mark with '
        'its first character mapped to that offset, the listed words after the fault survive '
        'with exact positions; clean: family documents produce no mark and no diagnostic.')
BOUNDS = {'quick': '34 faulty documents (every fault kind of the property, faults at the very '
                   'end of the text) + family slice; d in {0} U [2,inf), e >= 0',
          'thorough': 'same + full family'}
OUTSIDE = 'documents with several faults; faults inside deeper nesting than the catalogue'
ASSUMPTIONS = ['fault offset = offset of the opening delimiter / macro named in the property; '
               'scanner re-basing and stderr stub as for C01']

from vf.docs import MARK
# name: (source, options, fault offset, words that must survive after the mark)
FAULTS = {
    'dollar': ('A $x Keep', {}, 2, []),
    'dollar_end': ('A $', {}, 2, []),
    'dollar_para': ('A $x y\n\nKeep Also', {}, 2, ['Keep', 'Also']),
    'paren': ('A \\(x y\n\nKeep', {}, 2, ['Keep']),
    'bracket': ('A \\[ x\n\nKeep', {}, 2, ['Keep']),
    'bracket_end': ('A \\[', {}, 2, []),
    'dd': ('A $$ x + y\n\nKeep', {}, 2, ['Keep']),
    # the same with the simple-equations option (--seqs)
    'bracket_seqs': ('A \\[ x\n\nKeep', {'seqs': True}, 2, ['Keep']),
    'equation_seqs': ('A\n\\begin{equation}\nx = y.\n\nKeep', {'seqs': True}, 2, ['Keep']),
    'dd_seqs': ('A $$ x + y\n\nKeep', {'seqs': True}, 2, ['Keep']),
    'equation': ('A\n\\begin{equation}\nx = y\n\nKeep', {}, 2, ['Keep']),
    # later rows: any position inside the unfinished equation is accepted as "the problem"
    'align_row2': ('\\begin{align}\na &= b \\\\\n c\n\nKeep', {'pack': 'amsmath'}, (0, 26), ['Keep']),
    'arg_ltadd': ('A \\LTadd{Keep Also', {}, 8, ['Keep', 'Also']),
    'arg_end': ('A \\footnote{', {}, 11, []),
    'arg_footnote': ('A \\footnote{Keep Also', {}, 11, ['Keep', 'Also']),
    'arg_color': ('A \\textcolor{red}{Keep Also', {'pack': 'xcolor'}, 17, ['Keep', 'Also']),
    'opt': ('A \\section[Keep Also', {}, 10, ['Keep', 'Also']),
    'opt_end': ('A \\section[', {}, 10, []),
    'opt_cite': ('A \\cite[p. Keep', {}, 7, ['Keep']),
    'usermacro': ('\\newcommand{\\foo}[1]{<#1>}A \\foo{Keep Also', {}, 32, ['Keep', 'Also']),
    'nested': ('A \\LTadd{Q \\LTadd{R} Keep Also', {}, 8, ['Keep', 'Also']),
    'verb_eot': ('A \\verb', {}, 2, []),
    'verb_open': ('A \\verb|xy', {}, 2, []),
    'verb_newline': ('A \\verb|x\nKeep Also', {}, 2, ['Keep', 'Also']),
    'verb_later_delim': ('A \\verb|xy\nKeep Also \\verb|z| Last', {}, 2, ['Keep', 'Also', 'z', 'Last']),
    # line break directly behind \verb / \verb*: no delimiter at all
    'verb_nl': ('A \\verb\nx y\nKeep Also', {}, 2, ['Keep', 'Also']),
    'verb_star_nl': ('A \\verb*\nx y\n\nKeep Also', {}, 2, ['Keep', 'Also']),
    'verbatim': ('A\n\\begin{verbatim}\nxx', {}, 2, []),
    'skip': ('A\n%%% LT-SKIP-BEGIN\nKeep Also', {}, 2, ['Keep', 'Also']),
    'skip_second': ('A\n%%% LT-SKIP-BEGIN\nq\n%%% LT-SKIP-END\nB\n%%% LT-SKIP-BEGIN\nKeep', {}, 40,
                    ['Keep']),
    'accent_digit': ('A \\"1 Keep', {}, 2, ['Keep']),
    'accent_punct': ('A \\^{!} Keep', {}, 2, ['Keep']),
    'accent_unknown': ('A \\v{x} Keep', {}, 2, ['Keep']),
    'ltinput': ('A \\LTinput{/nonexistent/q.tex} Keep', {}, 2, ['Keep']),
    'after_empty_ltinput': ('\\LTinput{/verif/vf/data/empty.tex}A \\LTadd{Keep Also', {}, 42, ['Keep', 'Also']),
    'after_ltinput_defs': ('\\LTinput{/verif/vf/data/defs_mo.tex}\nA \\mo{x} $y Keep', {}, 46, []),
    # faults inside an argument that a handler turns into text (\\newtheorem title): only
    # "a mark never appears without a diagnostic" is demanded (offset None)
    'newtheorem_title_accent': ('\\newtheorem{thm}{Th\\"1 m}A\n\\begin{thm}\nB\n\\end{thm}', {}, None, []),
    'newtheorem_title_math': ('\\newtheorem{thm}{Th $x}\n\nA\n\\begin{thm}[N]\nB\n\\end{thm}', {}, None, []),
    'gls': ('A \\gls{nolabel} Keep', {'pack': 'glossaries'}, 2, ['Keep']),
    'def_noname': ('A \\def', {}, 2, []),
    'def_nobody': ('A \\def\\foo#1', {}, 2, []),
    'def_badname': ('A \\def x{y} Keep', {}, 7, ['Keep']),
    'newcommand_badarg': ('\\newcommand{\\foo}[1]{#2} Keep', {}, 21, ['Keep']),
}


def fault_oracle(S, off, keep, twin=False):
    lo, hi = off if isinstance(off, tuple) else (off, off)
    if off is None:
        lo = hi = 0

    def orc(_S, d, e, doc, flat, diags):
        lab, plain, cm = flat[0]
        if off is None:
            if (MARK in plain) != bool(diags) and not twin:
                return 'C08 %d error marks but %d diagnostics for %r' % (plain.count(MARK),
                                                                         len(diags), doc)
            return None
        if len(diags) != 1:
            return 'C08 %d diagnostics for one fault in %r: %r' % (len(diags), doc, diags)
        # offset named by the diagnostic
        lines = doc.split('\n')
        if not (1 <= diags[0][0] <= len(lines)):
            return 'C08 diagnostic names line %d of %r' % (diags[0][0], doc)
        fo = sum(len(x) + 1 for x in lines[:diags[0][0] - 1]) + diags[0][1] - 1
        if twin:
            fo += 1
        if not (d + lo <= fo <= d + hi):
            lin = doc.count('\n', 0, d + lo) + 1
            col = d + lo - (doc.rfind('\n', 0, d + lo) + 1) + 1
            return 'C08 diagnostic at line %d column %d, the fault (%r) is at line %d column ' \
                   '%d in %r' % (diags[0][0], diags[0][1], doc[d + lo:d + lo + 8], lin, col, doc)
        k = plain.find(' ' + MARK + ' ')
        if k < 0:
            return 'C08 no complete error mark in %r for %r' % (plain, doc)
        # (a mark may be repeated, e.g. in a detached flow; each copy belongs to the fault)
        j = -1
        while True:
            j = plain.find(MARK, j + 1)
            if j < 0:
                break
            if plain[j - 1:j + len(MARK) + 1] != ' ' + MARK + ' ':
                return 'C08 incomplete error mark in %r for %r' % (plain, doc)
            if cm[j - 1] != fo + 1:
                return 'C08 first character of the mark is mapped to %d, the diagnostic names ' \
                       'offset %d in %r' % (cm[j - 1], fo + 1, doc)
        pos = k + len(MARK)
        for w in keep:
            j = plain.find(w, pos)
            if j < 0:
                return 'C08 text %r after the fault is lost: %r from %r' % (w, plain, doc)
            for i, c in enumerate(w):
                if doc[cm[j + i] - 1] != c:
                    return 'C08 surviving word %r is mapped to %r' % (w, doc[cm[j] - 1:cm[j] + 3])
            pos = j + len(w)
        return None
    return orc


def clean_oracle(node):
    def orc(S, d, e, doc, flat, diags):
        lab, plain, cm = flat[0]
        if diags:
            return 'C08 diagnostic %r on the well-formed document %r' % (diags, doc[-80:])
        if MARK in plain:
            return 'C08 error mark without a problem in %r' % (doc[-80:],)
        return None
    return orc


# well-formed documents outside the family (no mark, no diagnostic)
CLEAN_EXTRA = {
    'verb_star': ('A \\verb*|x y| B', {}),
    'verb_delims': ('A \\verb+a|b+ \\verb=c= \\verb!d! B', {}),
    'verbatim_star': ('A\n\\begin{verbatim*}\nx y\n\\end{verbatim*}\nB', {}),
    'accents_ok': ('A \\"a \\\'e \\^{o} \\c{c} \\v S \\"{} B', {}),
    'skip_ok': ('A\n%%% LT-SKIP-BEGIN\n\\zzmacro{$x$ \\verb|$|} \\[ a \\]\n%%% LT-SKIP-END\nB', {}),
    'math_ok': ('A $x$ \\(y\\) \\[ z \\] $$ w $$ B', {}),
    'comment_dollar': ('A % $ { \\verb\nB', {}),
    'escaped': ('A \\$ \\{ \\} \\% B', {}),
}


def items(tier, seed):
    out = []
    for name in CLEAN_EXTRA:
        out.append({'h': 'cleanx', 'name': name})
    for name in FAULTS:
        out.append({'h': 'fault', 'name': name, 'cost': 5})
    fam = family.family(tier, seed)
    if tier == 'quick':
        fam = fam[::3]
    for name, spec in fam:
        out.append({'h': 'clean', 'name': name, 'spec': spec})
    out.append({'h': 'fault', 'name': 'dollar', 'twin': True})
    return out


def build(item):
    if item['h'] == 'fault':
        S, opts, off, keep = FAULTS[item['name']]
        orc = fault_oracle(S, off, keep, bool(item.get('twin')))
    elif item['h'] == 'cleanx':
        S, opts = CLEAN_EXTRA[item['name']]
        orc = clean_oracle(None)
    else:
        node = family.build(item['spec'])
        S, opts = node.src, dict(family.OPTS)
        orc = clean_oracle(node)
    pre_ok, suf_ok = srcmodel.rebase_ok(S)
    return offrun.make(S, opts, False, orc, pre_ok, suf_ok)


def run_item(item):
    prop, concrete = build(item)
    return harness.run(prop, concrete, item, budget_s=harness.budget(item, 90))


def replay(rep):
    prop, concrete = build(rep['item'])
    return concrete(rep['witness'])
