"""C11 -- displayed equations follow the documented scheme and keep their punctuation."""
from vf import harness, offrun, sketch, srcmodel, yal
from vf.docs import DISPLAY

ID = 'C11'
FUNCTIONS = ['yalafi.mathparser.MathParser.expand_display_math / expand_math_section / '
             'detect_math_parts / replace_section', 'yalafi.parser.Parser.begin_environment / '
             'parse_newline_option', 'yalafi.packages.amsmath', 'yalafi.parameters (math_* tables)']
RULE = ('eq: equation = rows x aligned sections; the first two sections are a symbolic choice '
        'from 22 section kinds (maths, operator-leading maths, \\text / \\mbox parts, operator '
        'only, trailing punctuation followed by \\label / \\nonumber / maths space / {}), the '
        'others a seeded choice; x environment x language x simple mode; compared with a '
        'reference model of the README scheme (words per output line, placeholder rotation, '
        'positions of \\text words, everything inside the equation span); off: the same with '
        'symbolic surrounding offsets; body: a symbolic maths hole inside a section.')
BOUNDS = {'quick': 'shapes up to 3 rows x 3 sections; 13 environments; en/de/ru; simple on/off; '
                   'hole <= 2 chars', 'thorough': 'first three sections symbolic'}
OUTSIDE = 'operators left of the alignment character (README remark); nested environments ' \
          'inside equations; \\substack'
ASSUMPTIONS = ['reference model (60 lines) written from README sections "Handling of displayed '
               'equations" / "Parser for maths material"; blanks are compared per line after '
               'splitting into words']

def _opword():
    """operator words of the language settings of the tree under test"""
    from vf.docs import OPTEXT
    out = {}
    for lang, tab in OPTEXT.items():
        out[lang] = {op: tab.get(op, tab[None]) for op in
                     ('=', '+', '-', '\\cdot', '\\times', '\\ne', '\\le', '/', '<', '\\geq')}
    return out


OPWORD = _opword()

# section kinds: (source, parts); part = ('m', op, elem, punct) | ('t', text)
#   op: leading operator or None; elem: has a maths element; punct: trailing . , ; : or ''
SECTS = [
    ('a', [('m', None, True, '')]),
    ('= b', [('m', '=', True, '')]),
    ('+ c', [('m', '+', True, '')]),
    ('\\cdot d', [('m', '\\cdot', True, '')]),
    ('- e,', [('m', '-', True, ',')]),
    ('= f.', [('m', '=', True, '.')]),
    ('g;', [('m', None, True, ';')]),
    ('\\mbox{for all} h', [('t', 'for all'), ('m', None, True, '')]),
    ('i \\mbox{ if } j.', [('m', None, True, ''), ('t', ' if '), ('m', None, True, '.')]),
    ('\\mbox{} \\times k.', [('t', ''), ('m', '\\times', True, '.')]),
    ('=', [('m', '=', False, '')]),
    ('\\quad -m', [('m', '-', True, '')]),
    ('n \\label{q}', [('m', None, True, '')]),
    ('p. \\nonumber', [('m', None, True, '.')]),
    ('q, \\label{ll}', [('m', None, True, ',')]),
    ('r;\\,', [('m', None, True, ';')]),
    ('s. {}', [('m', None, True, '.')]),
    ('x^{2}_{i} \\alpha', [('m', None, True, '')]),
    ('\\ne u:', [('m', '\\ne', True, ':')]),
    ('\\mbox{where $v$ holds.}', [('t', 'where @INLINE@ holds.')]),
    ('< w \\mbox{and}', [('m', '<', True, ''), ('t', 'and')]),
    ('.', [('m', None, False, '.')]),
    ('\\mbox{for } -y,', [('t', 'for '), ('m', '-', True, ',')]),
    ('t \\mbox{ or } = o', [('m', None, True, ''), ('t', ' or '), ('m', '=', True, '')]),
    ('\\text{ for } z,', [('t', ' for '), ('m', None, True, ',')]),      # needs amsmath
    ('= f. \\tag{1}', [('m', '=', True, '.')]),                          # amsmath
    ('g, \\tag*{$\\ast$}', [('m', None, True, ',')]),                    # amsmath
    # delimiters: the full stop of \right. is no punctuation mark
    ('= \\left\\{ h \\right.', [('m', '=', True, '')]),
    ('\\left. k \\right|,', [('m', None, True, ',')]),
    # label with cleveref's optional argument behind the punctuation mark
    ('= p. \\label[equation]{eq:x}', [('m', '=', True, '.')]),
    ('q, \\label[equation]{eq:y}', [('m', None, True, ',')]),
    # operator macros that the document redefines keep their role
    ('\\le r,', [('m', '\\le', True, ',')]),
    ('\\cdot s', [('m', '\\cdot', True, '')]),
    ('\\geq t.', [('m', '\\geq', True, '.')]),
]
NSYM = 24        # the kinds from here on need amsmath: used in fixed documents only

ENVS = [('equation', None), ('displaymath', None), ('eqnarray', None), ('eqnarray*', None),
        ('align', 'amsmath'), ('align*', 'amsmath'), ('gather', 'amsmath'),
        ('flalign', 'amsmath'), ('equation*', 'amsmath'), ('multiline', 'amsmath'), ('multline', 'amsmath'), ('multline*', 'amsmath'),
        ('alignat', 'amsmath'), ('BRACKET', None), ('DOLLAR', None)]
SHAPES = [[1], [2], [3], [1, 1], [2, 2], [2, 1], [1, 2], [2, 2, 2], [3, 3], [1, 1, 1]]


def source(env, rows):
    body = ' \\\\\n'.join(' & '.join(SECTS[i][0] for i in r) for r in rows)
    if env == 'BRACKET':
        return '\\[\n' + body + '\n\\]'
    if env == 'DOLLAR':
        return '$$\n' + body + '\n$$'
    arg = '{2}' if env.startswith('alignat') else ''
    return '\\begin{' + env + '}' + arg + '\n' + body + '\n\\end{' + env + '}'


def reference(rows, lang, simple):
    """expected words per output line, from the README scheme"""
    coll = list(DISPLAY[lang])
    state = {'rot': True}
    from vf.docs import INLINE
    inl = list(INLINE[lang])
    lines = []
    last_punct = ''
    used = []
    for r in rows:
        words = []
        for si, s in enumerate(r):
            first_part = si > 0
            for part in SECTS[s][1]:
                if part[0] == 't':
                    t = part[1]
                    if '@INLINE@' in t:
                        inl[:] = inl[1:] + inl[:1]
                        t = t.replace('@INLINE@', inl[0])
                    words += t.split()
                    if t.strip():
                        first_part = False
                        state['rot'] = True
                        last_punct = t.strip()[-1] if t.strip()[-1] in '.,;:' else ''
                    continue
                _m, op, elem, punct = part
                if first_part and op:
                    words.append(OPWORD[lang][op])
                if elem:
                    if state['rot'] or (op and first_part):
                        coll[:] = coll[1:] + coll[:1]
                    words.append(coll[0] + punct)
                    used.append(coll[0])
                elif punct:
                    words.append(punct)
                state['rot'] = False
                if punct:
                    state['rot'] = True
                if op and not elem:
                    state['rot'] = True
                last_punct = punct
        lines.append(words)
    flat = ''.join(''.join(l) for l in lines)
    last_punct = flat[-1] if flat[-1:] in ('.', ',', ';', ':') else ''
    return lines, last_punct, coll


def judge(doc, a, b, rows, lang, simple, plain, cm, twin=False):
    """doc[a:b] is the equation; plain/cm of the whole document 'Before <eq> After'"""
    i0 = plain.find('Before')
    i1 = plain.rfind('After')
    if i0 < 0 or i1 < 0:
        return 'C11 surrounding text lost: %r' % plain
    seg = plain[i0 + 6:i1]
    lines, last_punct, coll = reference(rows, lang, simple)
    if twin:
        last_punct = '!' if simple else last_punct
        if lines and not simple:
            lines = lines + [['x']]
    got = [ln.split() for ln in seg.split('\n') if ln.strip()]
    if simple:
        flat = [w for ln in got for w in ln]
        ok = len(flat) == 1 and flat[0].rstrip('.,;:') in DISPLAY[lang] and (
            flat[0][len(flat[0].rstrip('.,;:')):] == last_punct)
        if not ok:
            return 'C11 simple mode: %r rendered as %r, expected one placeholder + %r' % (
                doc[a:b], seg, last_punct)
    else:
        # blanks inside a line are not compared (README: text and maths parts are not
        # separated unless the source says so)
        g = [''.join(ln) for ln in got]
        w = [''.join(l) for l in lines if l]
        if g != w:
            return 'C11 %r (%s) rendered as %r, the documented scheme gives %r' % (
                doc[a:b], lang, g, w)
    # positions: everything between Before and After maps into the equation, \text words exactly
    for k in range(i0 + 6, i1):
        c = plain[k]
        p = cm[k] - 1
        if c.isspace():
            continue
        if not (a <= p < b):
            return 'C11 character %r of the rendering is mapped to offset %d, outside the ' \
                   'equation %d..%d of %r' % (c, p, a, b - 1, doc)
    if not simple:
        for w in ('for', 'all', 'if', 'where', 'holds.', 'and'):
            k = seg.find(w)
            while k >= 0:
                kk = i0 + 6 + k
                for j, c in enumerate(w):
                    if doc[cm[kk + j] - 1] != c:
                        return 'C11 text word %r is mapped to %r' % (w, doc[cm[kk] - 1:cm[kk] + 4])
                k = seg.find(w, k + 1)
    return None


def run_eq(env, pack, rows, lang, simple, d=0, twin=False):
    eq = source(env, rows)
    pre = 'Before\n'
    doc = pre + eq + '\nAfter'
    opts = {'lang': lang, 'seqs': simple}
    if pack:
        opts['pack'] = pack
    (plain, cm), diags, err = yal.run_native(doc, yal.mkopts(opts))
    if diags:
        return 'C11 diagnostic %r for %r' % (diags, doc)
    return judge(doc, len(pre), len(pre) + len(eq), rows, lang, simple, plain, cm, twin)


ML = {
    # name: (prefix switching the language, language of the equation, main language option)
    'select_ru': ('\\usepackage[english]{babel}\n\\selectlanguage{russian}\n', 'ru', 'en-GB'),
    'pkg_de': ('\\usepackage[german]{babel}\n', 'de', 'en-GB'),
    'cls_ru': ('\\documentclass[russian]{article}\\usepackage{babel}\n', 'ru', 'en-GB'),
    'env_de': ('\\begin{otherlanguage}{german}\n', 'de', 'ru-RU'),
    'back_to_main': ('\\selectlanguage{german}\nEins.\n\\selectlanguage{russian}\n', 'ru', 'ru-RU'),
}


def run_ml(name, rows, twin=False):
    prefix, lang, main = ML[name]
    eq = source('align', rows)
    pre = prefix + 'Before\n'
    doc = pre + eq + '\nAfter' + ('\n\\end{otherlanguage}' if 'otherlanguage' in prefix else '')
    res, diags, err = yal.run_native(doc, yal.mkopts({'lang': main, 'pack': 'amsmath,babel'}), True)
    if diags:
        return 'C11 diagnostic %r for %r' % (diags, doc)
    from vf.offrun import flatten
    for lab, plain, cm in flatten(res):
        if 'Before' in plain and 'After' in plain:
            return judge(doc, len(pre), len(pre) + len(eq), rows, lang, False, plain, cm, twin)
    return 'C11 equation of %r is not in one language part: %r' % (doc, [(l, p) for l, p, c in flatten(res)])


def items(tier, seed):
    import random
    rnd = random.Random(seed)
    out = []
    for si, shape in enumerate(SHAPES):
        for ei, (env, pack) in enumerate(ENVS):
            if env in ('equation', 'displaymath', 'equation*', 'BRACKET', 'DOLLAR',
                       'gather', 'multiline') and max(shape) > 1 and tier == 'quick' and (si + ei) % 2:
                continue
            for lang in ('en', 'de', 'ru'):
                if tier == 'quick' and ((si + ei) % 3 != {'en': 0, 'de': 1, 'ru': 2}[lang]):
                    continue
                for simple in (False, True):
                    n = sum(shape)
                    tail = [rnd.randrange(NSYM) for _ in range(max(0, n - 2))]
                    out.append({'h': 'eq', 'shape': shape, 'env': ei, 'lang': lang,
                                'simple': simple, 'tail': tail, 'cost': 2})
    for name in OFFDOCS:
        out.append({'h': 'off', 'name': name})
    for name in ML:
        out.append({'h': 'ml', 'name': name})
    for k in range(3):
        out.append({'h': 'body', 'k': k, 'L': 2 if tier == 'quick' else 3, 'cost': 5})
    out.append({'h': 'eq', 'shape': [2], 'env': 4, 'lang': 'en', 'simple': False, 'tail': [],
                'twin': True})
    return out


def rows_of(shape, picks):
    rows, k = [], 0
    for n in shape:
        rows.append(picks[k:k + n])
        k += n
    return rows


OFFDOCS = {
    'text_amsmath': ('align', 'amsmath', [[0, 1], [24, 5]], 'en', False),
    'align2': ('align', 'amsmath', [[0, 1], [9, 5]], 'en', False),
    'eqnarray': ('eqnarray', None, [[0, 10, 0], [7, 18, 13]], 'de', False),
    'bracket_text': ('BRACKET', None, [[8]], 'en', False),
    'simple': ('align', 'amsmath', [[0, 1], [0, 5]], 'ru', True),
    'tag': ('align', 'amsmath', [[0, 25], [26]], 'en', False),
    'tag_simple': ('equation', 'amsmath', [[26]], 'de', True),
    'delimiters': ('equation', None, [[0, 27]], 'en', False),
    'delimiters_rows': ('eqnarray', None, [[0, 27], [28]], 'de', False),
    'delimiters_simple': ('BRACKET', None, [[0, 27]], 'en', True),
    'label_opt': ('align', 'amsmath', [[0, 29], [30]], 'en', False, '\\usepackage[poorman]{cleveref}\n'),
    'label_opt_simple': ('equation', 'amsmath', [[30]], 'en', True, '\\usepackage[poorman]{cleveref}\n'),
    'redefined_ops': ('align', 'amsmath', [[0, 31], [0, 32], [0, 33]], 'en', False,
                      '\\renewcommand{\\le}{\\leqslant}\\renewcommand{\\cdot}{\\bullet}'
                      '\\renewcommand{\\geq}{\\geqslant}\n'),
    'redefined_ops_de': ('eqnarray', None, [[0, 31, 0], [0, 33, 0]], 'de', False,
                         '\\renewcommand{\\le}{\\leqslant}\\renewcommand{\\geq}{\\geqslant}\n'),
    'gather3': ('gather', 'amsmath', [[6], [14], [16]], 'en', False),
}


def build(item):
    twin = bool(item.get('twin'))
    if item['h'] == 'eq':
        env, pack = ENVS[item['env']]
        shape, tail = item['shape'], item['tail']
        n = sum(shape)
        E = NSYM

        def run(a, b):
            picks = ([a, b] + list(tail))[:n] if n >= 2 else [a]
            return run_eq(env, pack, rows_of(shape, picks), item['lang'], item['simple'],
                          twin=twin)

        def prop(a: int, b: int):
            from vf import driver as D
            if not (0 <= a < E) or not (0 <= b < E) or (n < 2 and b != 0):
                return D.SKIP
            tab = list(range(E))
            ka, kb = tab[a], tab[b]
            with D.NoTracing():
                return run(int(ka), int(kb)) or True

        def concrete(w):
            if not (0 <= w['a'] < E) or not (0 <= w['b'] < E):
                return None
            return run(w['a'], w['b'])
        return prop, concrete
    if item['h'] == 'ml':
        E = NSYM

        def runm(a, b):
            return run_ml(item['name'], [[0, a], [b, 5]], twin)

        def prop(a: int, b: int):
            from vf import driver as D
            if not (0 <= a < E) or not (0 <= b < E):
                return D.SKIP
            tab = list(range(E))
            ka, kb = tab[a], tab[b]
            with D.NoTracing():
                return runm(int(ka), int(kb)) or True

        def concrete(w):
            return runm(w['a'], w['b']) if 0 <= w['a'] < E and 0 <= w['b'] < E else None
        return prop, concrete
    if item['h'] == 'off':
        env, pack, rows, lang, simple = OFFDOCS[item['name']][:5]
        pre = OFFDOCS[item['name']][5] if len(OFFDOCS[item['name']]) > 5 else ''
        eq = source(env, rows)
        S = pre + 'Before\n' + eq + '\nAfter'
        opts = {'lang': lang, 'seqs': simple}
        if pack:
            opts['pack'] = pack

        def orc(_S, d, e, doc, flat, diags):
            lab, plain, cm = flat[0]
            return judge(doc, d + len(pre) + 7, d + len(pre) + 7 + len(eq), rows, lang, simple, plain, cm)
        pre_ok, suf_ok = srcmodel.rebase_ok(S)
        return offrun.make(S, opts, False, orc, pre_ok, suf_ok)
    # body: a maths hole inside a section; no maths source may show
    pre, post = [('Before\n\\begin{align}\na &= ', ' b. \\\\\n c &= d\n\\end{align}\nAfter'),
                 ('Before\n\\[ x ', ' + y, \\]\nAfter'),
                 ('Before\n\\begin{eqnarray}\nu &=& ', ' \\\\\nv &<& w.\n\\end{eqnarray}\nAfter')][
        item['k']]
    opts = {'pack': 'amsmath'}

    def orc(h0, doc, flat, diags):
        lab, plain, cm = flat[0]
        i0, i1 = plain.find('Before'), plain.rfind('After')
        seg = plain[i0 + 6:i1]
        allowed = set(''.join(DISPLAY['en']) + 'equalplsmintoverq.,;: \n')
        for k, c in enumerate(seg):
            if c not in allowed:
                return 'C11 maths source %r appears in the rendering %r of %r' % (c, seg, doc)
        a, b = doc.find('\\begin') if '\\begin' in doc else doc.find('\\['), doc.rfind('After')
        for k in range(i0 + 6, i1):
            if not plain[k].isspace() and not (a <= cm[k] - 1 < b):
                return 'C11 rendering mapped outside the equation'
        return None
    return sketch.make(pre, post, 'MATH', item['L'], opts, orc, lmin=1)


def run_item(item):
    prop, concrete = build(item)
    return harness.run(prop, concrete, item, budget_s=harness.budget(item, 200), per_path_s=30)


def replay(rep):
    prop, concrete = build(rep['item'])
    return concrete(rep['witness'])
