"""C02 -- see DESIGN.md section 4"""
from vf import family, harness, yal
from vf.family import T
from vf.props import flow_common as fc
from vf.props import sk_common as sk

ID = 'C02'
FUNCTIONS = ['yalafi.tex2txt.tex2txt', 'yalafi.parser.Parser.*', 'yalafi.mathparser.MathParser.*',
             'yalafi.handlers.*', 'yalafi.utils.get_txt_pos', 'yalafi.scanner.Scanner.scan']
RULE = ('item = one document of the family (construct catalogue: singles, ordered pairs x '
        'layout separators, one-level nestings, repeated uses); symbolic: comment text of '
        'length d before and e after it; verdict of the event oracle on the linked native run.')
BOUNDS = {'quick': 'singles + repeats + 150 pairs + 120 nestings (seeded slice); d in {0} U '
                   '[2,inf), e >= 0', 'thorough': 'singles + repeats + 2500 pairs + all '
                   'one-level nestings'}
OUTSIDE = 'documents outside the family (deeper nesting, other packages); non-comment surroundings'
ASSUMPTIONS = ['event annotations of vf/docs.py (written from the property texts and README, '
               'calibrated natively on the tree under test: 4651 documents agree (tools/calibrate.py))',
               'scanner re-basing + stderr stub as for C01']


A, B = T('Alpha'), T('Beta')


def sketches(tier):
    """holes around / inside position-sensitive constructs: the word after the construct
    must map to its own offset for every hole content"""
    Ls = 3 if tier == 'quick' else 4
    Lw = 2 if tier == 'quick' else 3
    S = [
        # a line that vanishes (label, index, unknown env, definition), any blanks around it
        ('after_label', ['cat', A, '\n', ['label'], '@H@', B], 'SPACE', Ls, True),
        ('before_label', ['cat', A, '@H@', ['label'], '\n', B], 'SPACE', Ls, True),
        ('after_index2', ['cat', A, '\n', ['label'], '\n', ['index'], '@H@', B], 'SPACE', Ls, True),
        ('after_beginenv', ['cat', A, '\n', ['unknown_env', 'zzenv', ['cat', '@H@', B, '\n']], '\n', A],
         'SPACE', Ls, True),
        ('after_endenv', ['cat', A, '\n', ['unknown_env', 'zzenv', ['cat', '\n', B, '\n']], '@H@', A],
         'SPACE', Ls, True),
        ('after_defn', ['cat', A, '\n', ['defnode', family.ZERO], '@H@', B], 'SPACE', Ls, True),
        ('after_item', ['cat', A, '\n', ['items', 'itemize', [[None, ['cat', '@H@', B]]]]], 'SPACE', Ls, True),
        ('after_unknown0', ['cat', A, ' ', ['unknown', 'zzbar'], '@H@', B], 'SPACE', Ls, True),
        ('macro_gap', ['cat', A, ' ', ['unknown', 'zzfoo', B, {'gap': '@H@'}], ' ', B], 'SPACE', 2, True),
        ('heading_gap', ['cat', ['heading', A, 'section', '', None, False, '@H@'], '\n', B], 'SPACE', 2, True),
        ('passthru_gap', ['cat', A, ' ', ['passthru', 'textcolor', B, '{red}', '@H@'], ' ', A], 'SPACE', 2, True),
        # the scanner looks ahead here: symbolic scan of the whole text
        ('verbatim_gap', ['cat', A, ' ', ['verbatim', 'x y', '@H@'], ' ', B], 'SPACE', 2, (6, 27)),
        ('verbatim_head', ['cat', A, '\n', ['verbatim', '@H@code x\n'], '\n', B], 'SPACE', 3, (16, 22)),
        ('after_comment', ['cat', A, ' ', ['comment', 'c'], '@H@', B], 'SPACE', 2, (3, 1)),
        ('comment_text', ['cat', A, ' ', ['comment', '@H@'], B], 'COMMENT', 2, (1, 2)),
        ('verb_text', ['cat', A, ' ', ['verb', 'x@H@y', '+'], ' ', B], 'WORD', 2, (7, 3)),
        # words of any letters in nested / detached / maths-text slots
        ('word_nested', ['cat', A, ' ', ['unknown', 'textbf', ['unknown', 'emph', T('@H@')]], ' ', B],
         'WORD', Lw, True),
        ('word_footnote', ['cat', A, ['footnote', T('x@H@')], ' ', B], 'WORD', Lw, True),
        ('word_macroarg', ['cat', ['defnode', family.FOO], A, ' ', ['call', family.FOO, T('@H@'), B], ' ', A],
         'WORD', Lw, True),
        ('word_heading', ['cat', ['heading', T('x@H@')], '\n', B], 'WORD', Lw, True),
        ('word_item', ['cat', ['items', 'itemize', [[T('@H@'), B]]], ' ', A], 'WORD', Lw, True),
    ]
    # any character (every code point that is not LaTeX-active) as first / last of the text
    START = [
        ('first_char', ['cat', T('@H@'), A, ' ', ['unknown', 'textbf', B], ' ', ['verb', 'x y']], 'PROSEW', 1),
        ('last_char', ['cat', A, ' ', ['unknown', 'textbf', B], ' ', T('x@H@')], 'PROSEW', 1),
    ]
    out = [sk.item('sk:' + n, ['cat', family.PREAMBLE, sp], c, L, 'C02', cost=5,
                   lmin=1 if n == 'after_unknown0' else 0,
                   win=spl if isinstance(spl, tuple) else None) for n, sp, c, L, spl in S]
    for n, sp, c, L in START:
        it = sk.item('sk:' + n, sp, c, L, 'C02', cost=5, lmin=1, opts={})
        it['win'] = (0, 5) if n == 'first_char' else (1, 0)
        out.append(it)
    out.append(sk.item('sk:twin', ['cat', A, '@H@', B], 'SPACE', 1, 'C02', twin=True))
    return out


# phrase replacement (option --repl): the copied text behind a replaced phrase keeps its offsets
EXTRA = {
    'repl_shorter': (['cat', A, ' ', ['G', 'so dass', 'sodass'], ' ', B, ' ', ['unknown', 'textbf', T('Gamma')],
                      ['footnote', T('Foot note')], ' ', ['G', 'so\n  dass', 'sodass'], ' ', T('End')],
                     {'repl': ['so dass & sodass']}),
    'repl_longer': (['cat', A, ' ', ['G', 'z.B.', 'zumBeispiel'], ' ', B, ['footnote', T('Foot')], ' ',
                     T('End')], {'repl': ['z.B. & zum Beispiel']}),
    'repl_delete': (['cat', A, ' ', ['G', 'very', ''], ' ', B, ' ', ['G', 'very', ''], ' ', T('End')],
                    {'repl': ['very & ']}),
    'repl_two_rules': (['cat', A, ' ', ['G', 'so dass', 'sd'], ' ', B, ' ', ['G', 'z.B.', 'zum'], ' ',
                        T('End')], {'repl': ['so dass & sd', 'z.B. & zum']}),
}


# concrete anchors: literal words (unique in the source) that are copied; each copied character has
# to map to its own offset.  (Not solver-decided: constructs the document algebra has no node for.)
LIT = [
    ("A \\'\\verb|abc| B \\`{\\verb+eyz+} C", ['bc', 'yz', 'A', 'B', 'C']),
    ("Uno \\^\\verb|o| Due \\\"\\verb|uvw|tre", ['vw', 'tre', 'Uno', 'Due']),
]


def lit_check(i, twin=False):
    doc, words = LIT[i]
    (plain, cm), diags, err = yal.run_native(doc, yal.mkopts({}))
    for w in words + (['zzz'] if twin else []):
        k = plain.find(w)
        if k < 0:
            return 'C02 copied text %r of %r is missing in %r' % (w, doc, plain)
        for j in range(len(w)):
            if cm[k + j] != doc.find(w) + j + 1:
                return ('C02 %r: copied character %r of %r stands at offset %d, is mapped to %d'
                        % (doc, w[j], w, doc.find(w) + j + 1, cm[k + j]))
    return None


def items(tier, seed):
    tw = {'h': 'fam', 'name': 'twin', 'spec': family.doc(family.ATOMS[0]), 'tag': 'C02',
          'twin': True}
    ex = [{'h': 'fam', 'name': 'extra:' + n, 'spec': sp, 'tag': 'C02', 'opts': o}
          for n, (sp, o) in EXTRA.items()]
    lit = [{'h': 'lit', 'i': i} for i in range(len(LIT))] + [{'h': 'lit', 'i': 0, 'twin': True}]
    return fc.items(tier, seed, 'C02', [tw] + ex) + sketches(tier) + lit


def run_item(item):
    if item['h'] == 'lit':
        r = lit_check(item['i'], bool(item.get('twin')))
        return harness.smt_result(1, 0 if r else 1, [{'witness': {}, 'msg': r}] if r else [], 0,
                                  0.0, [LIT[item['i']][0]], item)
    return (sk if item['h'] == 'sk' else fc).run_item(item)


def replay(rep):
    if rep['item']['h'] == 'lit':
        return lit_check(rep['item']['i'])
    return (sk if rep['item']['h'] == 'sk' else fc).replay(rep)
