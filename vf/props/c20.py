"""C20 -- the shell's own checks mark the offending characters, honour accepted patterns."""
from vf import harness, shellenv

ID = 'C20'
FUNCTIONS = ['yalafi.shell.checks.create_single_letter_matches',
             'yalafi.shell.checks.create_equation_punct_messages',
             'yalafi.shell.checks.create_context', 'yalafi.shell.checks.create_message',
             'yalafi.shell.shell (placeholder alternatives / accepted patterns set-up, AST slice)']
RULE = ('single: plain text = symbolic string (any code points, <= 3 chars) and = symbolic choice '
        'of <= 4 atoms from an alphabet, x accept lists; equ: symbolic choice of <= 4 atoms '
        '(placeholders, punctuation, words, blanks) x mode; ctx: create_context with unbounded '
        'symbolic offset/length.  Reference: isolated letter = alphabetic character whose '
        'neighbours are not word characters; accepted hits by an independent scanner.')
BOUNDS = {'quick': 'single: |text| <= 3 symbolic chars, <= 4 atoms; equ: <= 4 atoms; 9 accept lists (incl. a pattern that is a prefix of a later one, overlapping patterns)',
          'thorough': 'single: <= 5 atoms; equ: <= 5 atoms'}
OUTSIDE = 'longer texts; other languages than en for the placeholder collections'
ASSUMPTIONS = ['"letter" = str.isalpha(); "isolated" = neighbours are not alphanumeric or _',
               'accepted patterns are literal strings with ~ and \\, standing for (narrow) '
               'no-break space']

ACCEPTS = [None, '', 'I', 'z.B.', 'x|y', 'a||', "l'|a.|b.", 'z.~B.|x\\,y|(', 'a|a.b', 'a.b|b.a|z']
ALPHA1 = ['a', 'I', 'x', 'z', 'B', 'l', 'é', '1', '٣', '_', '.', "'", '(', ' ', '\n', '\u202f',
          '¼', 'b']
EQA = ['B-B-B', 'U-U-U', '.', ';', ' ', '\n', 'word', 'Word', 'x', '1', ',']


def isw(c):
    return c.isalnum() or c == '_'


def ref_accept_hits(plain, accept):
    if not accept:
        return []
    pats = []
    for s in accept.split('|'):
        if not s:
            continue
        s = s.replace('~', '\xa0').replace('\\,', ' ')
        pats.append(s)
    # every occurrence of every accepted pattern counts (the property: "covered by an accepted
    # pattern"), independent of the order of the list and of overlapping occurrences
    hits = []
    for s in pats:
        for i in range(len(plain)):
            if not plain.startswith(s, i):
                continue
            j = i + len(s)
            if s[0].isalpha() and i > 0 and isw(plain[i - 1]):
                continue
            if s[-1].isalpha() and j < len(plain) and isw(plain[j]):
                continue
            hits.append((i, j))
    return hits


def ref_single(plain, accept):
    if accept is None:
        return []           # option not given: nothing is checked
    hits = ref_accept_hits(plain, accept)
    out = []
    for i, c in enumerate(plain):
        if not c.isalpha():
            continue
        if i > 0 and isw(plain[i - 1]):
            continue
        if i + 1 < len(plain) and isw(plain[i + 1]):
            continue
        if any(a <= i < b for a, b in hits):
            continue
        out.append(i)
    return out


def check_msg(plain, m):
    o, l = m['offset'], m['length']
    if not (0 <= o and o + l <= len(plain) and l >= 1):
        return 'offset/length %r outside the text' % ((o, l),)
    c = m['context']
    marked = c['text'][c['offset']:c['offset'] + c['length']]
    want = plain[o:o + l].replace('\t', ' ').replace('\n', ' ')
    # the excerpt is clipped to 45 characters after the offset
    if marked != want[:len(marked)] or (len(marked) < len(want) and o + 45 > o + len(marked) and
                                        len(c['text']) - 3 > c['offset'] + len(marked)):
        return 'context marks %r, message marks %r' % (marked, want)
    return None


def judge_single(env, plain, accept, twin=False):
    cmd = env.cmdline
    cmd.single_letters = accept
    if accept is not None and accept.endswith('||'):
        # the shell appends the placeholder alternatives to a list ending in '||'
        lc = env.ns['lc']
        repls = (lc.math_repl_display + lc.math_repl_display_vowel + lc.math_repl_inline
                 + lc.math_repl_inline_vowel)
        cmd.single_letters = accept + '|'.join(sorted(set(repls)))
    ms = env.checks.create_single_letter_matches(plain, cmd)
    exp = ref_single(plain, cmd.single_letters)
    got = [m['offset'] for m in ms]
    if twin:
        exp = [i + 1 for i in exp]
    if got != exp:
        return 'C20 single letters of %r with accepted %r: marked offsets %r, isolated ' \
               'uncovered letters at %r' % (plain, accept, got, exp)
    for m in ms:
        if m['length'] != 1:
            return 'C20 single-letter message of length %r' % m['length']
        r = check_msg(plain, m)
        if r:
            return 'C20 ' + r
    return None


def ref_equ(plain, repls):
    """offsets of placeholders (from repls, as whole words) that must be marked"""
    def at(i):
        for r in repls:
            if plain.startswith(r, i):
                j = i + len(r)
                if (i == 0 or not isw(plain[i - 1])) and (j == len(plain) or not isw(plain[j])):
                    return j
        return -1
    out = []
    i = 0
    while i < len(plain):
        j = at(i)
        if j < 0:
            i += 1
            continue
        k = j
        while k < len(plain) and plain[k].isspace():
            k += 1
        ok = False
        if k < len(plain) and plain[k] == '.':
            ok = True
        else:
            if k < len(plain) and plain[k] in ',;:':
                k += 1
                while k < len(plain) and plain[k].isspace():
                    k += 1
            if at(k) > 0:
                ok = True
            elif k < len(plain) and plain[k].isalpha():
                ok = plain[k].islower()
                # a word directly glued to digits/underscore is still a word for the check
        if not ok:
            out.append(i)
        i = j
    return out


def judge_equ(env, plain, mode, twin=False):
    cmd = env.cmdline
    cmd.equation_punctuation = mode
    v = env.vars
    ms = env.checks.create_equation_punct_messages(
        plain, cmd, v.equation_replacements_display, v.equation_replacements_inline,
        v.equation_replacements)
    lc = env.ns['lc']
    disp, inl = list(lc.math_repl_display), list(lc.math_repl_inline)
    repls = {'displayed': disp, 'inline': inl, 'all': disp + inl}[
        next(k for k in ('displayed', 'inline', 'all') if k.startswith(mode))]
    exp = ref_equ(plain, repls)
    if twin:
        exp = exp + [0]
    got = [m['offset'] for m in ms]
    if got != exp:
        return 'C20 equation punctuation (%s) of %r: marked offsets %r, expected %r' % (
            mode, plain, got, exp)
    for m in ms:
        if not any(plain.startswith(r, m['offset']) for r in repls):
            return 'C20 message at %d does not start at a placeholder' % m['offset']
        r = check_msg(plain, m)
        if r:
            return 'C20 ' + r
    return None


def items(tier, seed):
    out = []
    for ai in range(len(ACCEPTS)):
        out.append({'h': 'single_sym', 'acc': ai, 'L': 3, 'cost': 5})
        for first in range(len(ALPHA1)):
            out.append({'h': 'single_atoms', 'acc': ai, 'first': first,
                        'n': 3 if tier == 'quick' else 4, 'cost': 3})
    for mode in ('displayed', 'inline', 'all') + (() if tier == 'quick' else ('d', 'a')):
        for first in range(len(EQA)):
            out.append({'h': 'equ', 'mode': mode, 'first': first,
                        'n': 4 if tier == 'quick' else 5, 'cost': 3})
    out.append({'h': 'ctx'})
    out.append({'h': 'own_ml'})
    out.append({'h': 'single_atoms', 'acc': 2, 'first': 0, 'n': 2, 'twin': True})
    out.append({'h': 'equ', 'mode': 'all', 'first': 0, 'n': 2, 'twin': True})
    return out


def build(item):
    env = shellenv.Env(['--single-letters', 'x', '--equation-punctuation', 'all', 'f.tex'])
    twin = bool(item.get('twin'))
    try:
        from vf import driver as D
    except ImportError:
        D = None
    h = item['h']
    if h == 'single_sym':
        acc = ACCEPTS[item['acc']]
        L = item['L']

        def prop(s: str):
            if len(s) > L:
                return D.SKIP
            # the real regex scan runs symbolically; the reference judges the witness of the
            # path natively (validate) -- here only crashes are observed
            env.cmdline.single_letters = acc
            ms = env.checks.create_single_letter_matches(s, env.cmdline)
            with D.NoTracing():
                model = D._model()
                s0 = D._peek(s, model)
                got = [D._peek(m['offset'], model) for m in ms]
                exp = ref_single(s0, acc)
                if got != exp:
                    return 'C20 single letters of %r with accepted %r: marked %r, expected %r' \
                        % (s0, acc, got, exp)
            return True

        def concrete(w):
            return judge_single(env, w['s'], acc, twin) if len(w['s']) <= L else None
        return prop, concrete
    if h in ('single_atoms', 'equ'):
        alpha = ALPHA1 if h == 'single_atoms' else EQA
        n = item['n']
        first = item['first']
        E = len(alpha)       # index E = "no atom"

        def text(idx):
            return alpha[first] + ''.join(alpha[i] for i in idx if i < E)

        def judge(t):
            if h == 'equ':
                return judge_equ(env, t, item['mode'], twin)
            return judge_single(env, t, ACCEPTS[item['acc']], twin)

        def pre(idx):
            ok = all(0 <= i <= E for i in idx)
            # canonical form: "no atom" only at the end
            for a, b in zip(idx, idx[1:]):
                if a == E and b != E:
                    ok = False
            return ok

        if n == 3:
            def prop(a: int, b: int):
                if not pre([a, b]):
                    return D.SKIP
                return judge(text([a, b])) or True
        elif n == 5:
            def prop(a: int, b: int, c: int, d: int):
                if not pre([a, b, c, d]):
                    return D.SKIP
                return judge(text([a, b, c, d])) or True
        elif n == 4:
            def prop(a: int, b: int, c: int):
                if not pre([a, b, c]):
                    return D.SKIP
                return judge(text([a, b, c])) or True
        else:
            def prop(a: int):
                if not pre([a]):
                    return D.SKIP
                return judge(text([a])) or True

        def concrete(w):
            idx = [w[k] for k in 'abcd' if k in w]
            return judge(text(idx)) if pre(idx) else None
        return prop, concrete
    if h == 'own_ml':
        from vf.props import c14

        def prop(T: int):
            return c14.own_check(T, twin) or True

        def concrete(w):
            return c14.own_check(w['T'], twin)
        return prop, concrete
    if h == 'ctx':
        txt = 'Some text with\ttabs and\nline breaks, long enough to be clipped on both sides ' \
              'of the excerpt window ... the end.'

        def chk(o, l):
            c = env.checks.create_context(txt, o, l)
            beg = max(o - 45, 0)
            exp = txt[beg:min(o + 45, len(txt))].replace('\t', ' ').replace('\n', ' ')
            if c['text'] != '...' + exp + '...':
                return 'C20 create_context text %r' % c['text']
            if c['length'] != l or c['offset'] != o - beg + 3:
                return 'C20 create_context marks (%r,%r) for offset %r length %r' % (
                    c['offset'], c['length'], o, l)
            if c['text'][c['offset']:c['offset'] + 1] != txt[o:o + 1].replace('\n', ' ').replace(
                    '\t', ' '):
                return 'C20 create_context mark does not start at the flagged character'
            return None

        def prop(o: int, l: int):
            if not (0 <= o < len(txt)) or not (1 <= l) or o + l > len(txt):
                return D.SKIP
            return chk(o, l) or True

        def concrete(w):
            if not (0 <= w['o'] < len(txt)) or not (1 <= w['l']) or w['o'] + w['l'] > len(txt):
                return None
            return chk(w['o'], w['l'])
        return prop, concrete
    raise KeyError(h)


def run_item(item):
    prop, concrete = build(item)
    return harness.run(prop, concrete, item, budget_s=harness.budget(item, 200), per_path_s=30,
                       validate=True)


def replay(rep):
    prop, concrete = build(rep['item'])
    return concrete(rep['witness'])
