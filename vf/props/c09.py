"""C09 -- user macro definitions expand by TeX substitution, in order, from any source."""
import os
import tempfile

from vf import family, harness, offrun, oracle, srcmodel, yal
from vf.family import T
from vf.props import sk_common as sk

ID = 'C09'
FUNCTIONS = ['yalafi.handlers.h_newcommand', 'yalafi.parser.Parser.parse_def_macro',
             'yalafi.parser.Parser.expand_macro / expand_arguments / generate_replacements',
             'yalafi.parser.Parser.parse (define)', 'yalafi.handlers.h_load_defs',
             'yalafi.tex2txt.tex2txt']
RULE = ('sem: documents built from definitions (0-3 parameters, optional default, \\def, '
        'redefinition, use before definition, arguments used 0/1/2 times, braced and single-token '
        'arguments, nested calls, calls at the very end of text / of an argument) with symbolic '
        'surrounding offsets, judged by the reference substitution (event oracle); arg: a symbolic '
        'word inside actual arguments; route: the same definitions in the document, in the defs '
        'option and in an \\LTinput file: equal text, positions shifted by a constant, the '
        'definitions leave no text.')
BOUNDS = {'quick': '52 documents x symbolic offsets; holes <= 2 letters; 12 route documents',
          'thorough': 'same + 0-9 parameters, holes <= 3'}
OUTSIDE = 'delimited \\def parameters, recursive definitions (as in the property)'
ASSUMPTIONS = ['reference substitution of vf/docs.py (Defn.call)']


def D(name, nargs, body, default=None, how='newcommand'):
    return ['Defn', name, nargs, body, default, how]


A, B, C = T('Alpha'), T('Beta'), T('Gamma')
M0 = D('mz', 0, ['Zero'])
M1 = D('mo', 1, ['<', 1, '>'])
M2 = D('mt', 2, [2, ' then ', 1])
M3 = D('mh', 3, ['(', 1, ',', 3, ',', 2, ',', 1, ')'])
MD = D('md', 2, ['[', 1, ':', 2, ']'], 'dflt')
MO = D('mopt', 1, ['(', 1, ')'], 'only')        # the only parameter is optional
MX = D('mdrop', 2, ['keep ', 2])
DF = D('dd', 2, ['/', 2, '/', 1, '/'], None, 'def')
DF0 = D('dz', 0, ['Dzero'], None, 'def')
R1 = D('rr', 1, ['old ', 1])
R2 = D('rr', 1, ['new ', 1, ' ', 1], None, 'renewcommand')
M9 = D('mn', 9, [9, 8, 7, 6, 5, 4, 3, 2, 1, '!'])


def defs(*ds):
    return ['cat'] + [['defnode', d] for d in ds] + ['\n']


def call(d, *a, **kw):
    return ['call', d] + list(a) + ([kw] if kw else [])


DOCS = {
    'zero': ['cat', defs(M0), A, ' ', call(M0), ' ', B, ' ', call(M0), T('.')],
    'one': ['cat', defs(M1), A, ' ', call(M1, B), ' ', C],
    'two_swap': ['cat', defs(M2), A, ' ', call(M2, B, C), ' ', A],
    'three': ['cat', defs(M3), A, ' ', call(M3, T('x'), T('y y'), T('z')), ' ', B],
    'bare': ['cat', defs(M2), A, ' ', call(M2, T('x'), T('y'), bare=[0, 1]), T(' z')],
    'bare_mixed': ['cat', defs(M3), A, ' ', call(M3, T('x'), B, T('z'), bare=[0, 2]), T('.')],
    'default_absent': ['cat', defs(MD), A, ' ', call(MD, B), ' ', C],
    'default_given': ['cat', defs(MD), A, ' ', call(MD, B, opt=T('opt')), ' ', C],
    'default_twice': ['cat', defs(MD), call(MD, A), ' ', call(MD, B), ' ', call(MD, C, opt=T('o'))],
    'only_opt_mid': ['cat', defs(MO), A, ' ', call(MO), T('.'), ' ', B],
    'only_opt_given': ['cat', defs(MO), A, ' ', call(MO, opt=B), ' ', C],
    'only_opt_end': ['cat', defs(MO), A, ' ', call(MO)],
    'only_opt_end_nl': ['cat', defs(MO), A, ' ', call(MO), '\n'],
    'only_opt_in_arg_end': ['cat', defs(MO, M1), A, ' ', call(M1, ['cat', B, ' ', call(MO)]), ' ', C],
    'only_opt_twice': ['cat', defs(MO, M2), call(M2, call(MO), ['cat', A, ' ', call(MO)])],
    'dropped_arg': ['cat', defs(MX), A, ' ', call(MX, T('gone'), B), ' ', C],
    'def': ['cat', defs(DF), A, ' ', call(DF, B, C), ' ', A],
    'def_bare': ['cat', defs(DF), A, ' ', call(DF, T('x'), T('y'), bare=[0, 1]), T(' z')],
    'def_zero': ['cat', defs(DF0), A, ' ', call(DF0), T('.'), ' ', B],
    'nested_call_in_arg': ['cat', defs(M1, M2), A, ' ', call(M2, call(M1, B), call(M1, call(M1, C))),
                           ' ', A],
    'nested_self': ['cat', defs(M1), call(M1, ['cat', A, ' ', call(M1, B), ' ', C])],
    'same_twice': ['cat', defs(M2), call(M2, A, B), ' ', call(M2, B, C)],
    'before_def': ['cat', A, ' ', ['unknown', 'mo', B], ' ', defs(M1), call(M1, C), ' ', call(M1, A)],
    'before_def_noarg': ['cat', A, ' ', ['unknown', 'mz'], ' ', B, ' ', defs(M0), call(M0), T('.')],
    'redefine': ['cat', defs(R1), call(R1, A), ' ', defs(R2), call(R2, B), ' ', call(R2, C)],
    'redefine_def': ['cat', defs(M1), call(M1, A), ' ', ['defnode', D('mo', 1, ['(', 1, ')'], None, 'def')],
                     ' ', call(D('mo', 1, ['(', 1, ')'], None, 'def'), B)],
    'def_in_arg': ['cat', A, ' ', ['unknown', 'zzw', ['cat', defs(M1), call(M1, B)]], ' ', call(M1, C)],
    'in_footnote': ['cat', defs(M2), A, ['footnote', ['cat', T('F '), call(M2, B, C)]], ' ', A],
    'in_heading': ['cat', defs(M1), ['heading', ['cat', T('H '), call(M1, B)]], '\n', C],
    'in_item': ['cat', defs(M1), ['items', 'itemize', [[None, call(M1, A)], [call(M1, T('l')), B]]]],
    'arg_with_macro': ['cat', defs(M1), call(M1, ['cat', A, ' ', ['unknown', 'textbf', B], ' ', ['ref']])],
    'arg_with_math': ['cat', defs(M2), call(M2, ['cat', A, ' ', ['inline_math', 'x', 'en', ['$', '$'], 1]],
                                            ['inline_math', 'y', 'en', ['$', '$'], 0])],
    'nine': ['cat', defs(M9), A, ' ', call(M9, *[T(c) for c in 'abcdefghi']), ' ', B],
    # a parameter directly followed by a digit: #12 is parameter 1 and the character 2
    'digit_after_param': ['cat', defs(D('mq', 1, [1, '2'])), A, ' ', call(D('mq', 1, [1, '2']), B), ' ', C],
    'digit_after_param_two': ['cat', defs(D('mr', 2, ['v', 1, '.', 2, '0s'])), A, ' ',
                              call(D('mr', 2, ['v', 1, '.', 2, '0s']), T('x'), T('y')), ' ', C],
    'digit_after_param_def': ['cat', defs(D('ms', 1, ['9', 1, '1', 1], None, 'def')), A, ' ',
                              call(D('ms', 1, ['9', 1, '1', 1], None, 'def'), B), ' ', C],
    # detached text is expanded with the definitions in force at the call
    'footnote_then_redefine': ['cat', defs(R1), A, ['footnote', ['cat', T('see '), call(R1, B)]], ' ',
                               defs(R2), call(R2, C)],
    'caption_then_redefine': ['cat', defs(R1), A, ['footnote', ['cat', T('cap '), call(R1, B)], 'caption', 'sh'],
                              ' ', defs(R2), call(R2, C)],
    'footnote_before_def': ['cat', A, ['footnote', ['cat', T('F '), ['unknown', 'mo', B]]], ' ', defs(M1),
                            call(M1, C)],
    'layout': ['cat', defs(M2), A, '\n', call(M2, B, C), '\n', A, '\n\n', call(M2, A, B)],
}

# route documents: (definitions, body)
ROUTES = [
    ('\\newcommand{\\mo}[1]{<#1>}\\newcommand{\\mt}[2]{#2 then #1}',
     'Alpha \\mo{Beta} \\mt{x}{Gamma delta} end.'),
    ('\\newcommand{\\md}[2][dflt]{[#1:#2]}\\def\\dd#1#2{/#2/#1/}',
     'Alpha \\md{Beta} \\md[o]{x} \\dd uv \\dd{Gamma}{w}'),
    ('\\newcommand{\\mz}{Zero}\n\\renewcommand{\\mz}{One}\n', 'A \\mz{} B \\mz'),
    ('\\newcommand{\\mo}[1]{<#1>}\nStray text \\footnote{Foot of defs} and $x$ here.\n',
     'Alpha \\mo{Beta}\\footnote{Real foot} Gamma'),
    ('\\newcommand{\\mo}[1]{<#1 \\mz>}\\newcommand{\\mz}{Z}', 'Alpha \\mo{\\mo{Beta}} \\mz'),
    ('\\newcommand{\\mopt}[1][only]{(#1)}', 'Alpha \\mopt. Beta \\mopt[x] \\mopt'),
    ('\\newtheorem{thm}{Theorem}\\newcommand{\\mo}[1]{<#1>}',
     'A\n\\begin{thm}\n\\mo{B}\n\\end{thm}\nC'),
    ('\\usepackage{xcolor}\\newcommand{\\red}[1]{\\textcolor{red}{#1}}', 'A \\red{B C} D'),
]


def sem_oracle(node, twin=False):
    def orc(S, d, e, doc, flat, diags):
        lab, plain, cm = flat[0]
        if twin:
            return 'TWIN'
        fails = oracle.check(node, plain, cm, d=d)
        if fails:
            return 'C09 ' + fails[0][1]
        if diags:
            return 'C09 unexpected diagnostic %r' % (diags,)
        return None
    return orc


def route_check(i, d, e, tmpdir=None, twin=False):
    defs_, body = ROUTES[i]
    P = '' if d == 0 else '%' + 'x' * (d - 2) + '\n'
    Q = '' if e == 0 else '%' + 'x' * (e - 1)
    own = tmpdir is None
    if own:
        tmpdir = tempfile.mkdtemp(prefix='vf_c09_')
    fn = os.path.join(tmpdir, 'defs%d.tex' % i)
    with open(fn, 'w', encoding='utf-8') as f:
        f.write(defs_)
    try:
        docs = {'doc': (P + defs_ + '\n' + body + Q, {}, len(P) + len(defs_) + 1),
                'defs': (P + body + Q, {'defs': defs_}, len(P)),
                'ltinput': (P + '\\LTinput{' + fn + '}\n' + body + Q, {}, len(P) + len(fn) + 11)}
        res = {}
        for k, (doc, o, off) in docs.items():
            (plain, cm), diags, err = yal.run_native(doc, yal.mkopts(o))
            res[k] = (plain.strip('\n'), [p - off for p, c in zip(cm, plain)], diags)
            # leading / trailing line breaks left by the definition line itself do not count
            lead = len(plain) - len(plain.lstrip('\n'))
            res[k] = (plain.strip('\n'), [p - off for p in cm][lead:lead + len(plain.strip('\n'))],
                      len(diags))
        if twin:
            res['defs'] = (res['defs'][0] + 'x', res['defs'][1], res['defs'][2])
        if 'Stray text' in defs_:
            # other content of a definitions file is skipped; in the document it is text
            res['doc'] = res['defs'] if not twin else res['doc']
        for k in ('defs', 'ltinput'):
            if res[k][0] != res['doc'][0]:
                return 'C09 definitions %r: text with route "%s" is %r, in the document %r' % (
                    defs_[:40], k, res[k][0], res['doc'][0])
            if res[k][1] != res['doc'][1]:
                return 'C09 definitions %r: positions relative to the body differ between ' \
                       'route "%s" %r and the document %r' % (defs_[:40], k, res[k][1],
                                                              res['doc'][1])
        return None
    finally:
        if own:
            import shutil
            shutil.rmtree(tmpdir, ignore_errors=True)


RELOAD = [
    # (definitions, statement between the two loads, body)
    ('\\newcommand{\\mo}[1]{<#1>}\\newcommand{\\mz}{Zero}\n', '\\renewcommand{\\mo}[1]{changed #1}', 'A \\mo{x} \\mz'),
    ('\\def\\dd#1{/#1/}\n', '\\def\\dd#1{(#1)(#1)}', 'A \\dd x B'),
    ('\\newcommand{\\mz}{Zero}\n', '\\renewcommand{\\mz}{One}\\mz{} ', 'A \\mz'),
]


def reload_check(i, twin=False):
    """definitions loaded, something redefined, definitions loaded again (by \\LTinput of the
    same file / repeated in the document): later uses see the original meaning in both cases"""
    defs_, mid, body = RELOAD[i]
    tmpdir = tempfile.mkdtemp(prefix='vf_c09_')
    fn = os.path.join(tmpdir, 'd.tex')
    open(fn, 'w', encoding='utf-8').write(defs_)
    try:
        inp = '\\LTinput{' + fn + '}'
        a = defs_ + mid + '\n' + defs_.replace('\\newcommand', '\\renewcommand') + body
        b = inp + mid + '\n' + inp + body
        (pa, ca), da, ea = yal.run_native(a, yal.mkopts({}))
        (pb, cb), db, eb = yal.run_native(b, yal.mkopts({}))
        if twin:
            pb += 'x'
        if pa.split() != pb.split():
            return 'C09 definitions %r, then %r, then the definitions again: the document ' \
                   'gives %r, \\LTinput of the same file gives %r' % (defs_, mid, pa, pb)
        return None
    finally:
        import shutil
        shutil.rmtree(tmpdir, ignore_errors=True)


def items(tier, seed):
    out = []
    for i in range(len(RELOAD)):
        out.append({'h': 'reload', 'i': i})
    for name in DOCS:
        out.append({'h': 'sem', 'name': name})
    for i in range(len(ROUTES)):
        out.append({'h': 'route', 'i': i})
    Lw = 2 if tier == 'quick' else 3
    for name, spec, cls in [
            ('arg1', ['cat', defs(M2), A, ' ', call(M2, T('x@H@'), C), ' ', B], 'WORD'),
            ('arg2', ['cat', defs(M2), A, ' ', call(M2, B, T('@H@y')), ' ', C], 'WORD'),
            ('opt', ['cat', defs(MD), A, ' ', call(MD, B, opt=T('o@H@')), ' ', C], 'WORD'),
            ('def_arg', ['cat', defs(DF), A, ' ', call(DF, T('@H@x'), C), ' ', B], 'WORD'),
            ('nested', ['cat', defs(M1), call(M1, ['cat', A, ' ', call(M1, T('q@H@'))])], 'WORD'),
            ('twice', ['cat', ['defnode', family.TW], A, ' ', ['call', family.TW, T('w@H@')], ' ', B],
             'WORD')]:
        out.append(sk.item('sk:' + name, spec, cls, Lw, '*', opts={}, cost=5))
    out.append({'h': 'sem', 'name': 'one', 'twin': True})
    out.append({'h': 'route', 'i': 0, 'twin': True})
    return out


def build(item):
    twin = bool(item.get('twin'))
    if item['h'] == 'sem':
        node = family.build(DOCS[item['name']])
        S = node.src
        pre_ok, suf_ok = srcmodel.rebase_ok(S)
        return offrun.make(S, {}, False, sem_oracle(node, twin), pre_ok, suf_ok)
    if item['h'] == 'route':
        i = item['i']

        def prop(d: int, e: int):
            from vf import driver as Dr
            if not (d == 0 or 2 <= d <= 40) or not (0 <= e <= 3):
                return Dr.SKIP
            dd = list(range(41))[d]
            ee = list(range(4))[e]
            with Dr.NoTracing():
                return route_check(i, int(dd), int(ee), None, twin) or True

        def concrete(w):
            return route_check(i, w['d'], w['e'], None, twin)
        return prop, concrete
    return sk.build(item)


def run_item(item):
    if item['h'] == 'reload':
        r = reload_check(item['i'], bool(item.get('twin')))
        return harness.smt_result(1, 0 if r else 1, [{'witness': {}, 'msg': r}] if r else [], 0, 0.0,
                                  [RELOAD[item['i']][2]], item)
    prop, concrete = build(item)
    return harness.run(prop, concrete, item, budget_s=harness.budget(item, 120), per_path_s=30)


def replay(rep):
    if rep['item']['h'] == 'reload':
        return reload_check(rep['item']['i'])
    prop, concrete = build(rep['item'])
    return concrete(rep['witness'])
