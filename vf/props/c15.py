"""C15 -- any proofreader answer gives an in-file report or a clean error, no traceback."""
import contextlib
import copy
import io
import json
import re
import subprocess

from vf import harness, shellenv, yal

ID = 'C15'
FUNCTIONS = ['yalafi.shell.proofreader.run_proofreader_options',
             'yalafi.shell.proofreader.run_languagetool (decoding of the process output)',
             'yalafi.shell.shell.json_get/json_fatal (AST slice)',
             'yalafi.shell.utils.map_match_position', 'yalafi.shell.gentext.output_text_report',
             'yalafi.shell.genjson.output_json', 'yalafi.shell.genxml.output_xml_report',
             'yalafi.shell.genhtml.generate_html', 'yalafi.shell.server.Handler.create_message']
RULE = ('modes plain/json/xml/xml-b/html/html with --link/server; shape: symbolic choice of one field of a valid answer and of the kind of value put '
        'there (absent/int/str/list/dict/null/bool/float), symbolic unbounded offset and length, '
        'context offset/length in -2..50; trunc: symbolic cut point of the answer bytes through '
        'the real decoder; outcome per output mode must be SystemExit(1) after a diagnostic or a '
        'report with every location inside the file.')
BOUNDS = {'quick': '5 documents x 20 fields x 13 kinds; all integers offset/length; every byte '
                   'truncation of 2 answers + 14 wrong-shape answers',
          'thorough': 'same + two simultaneously malformed matches'}
OUTSIDE = 'the HTTP transport; answers larger than two matches; context offsets beyond 50 ' \
          '(they are formatted as that many blanks)'
ASSUMPTIONS = ['proofreader process stubbed at subprocess.run / run_languagetool',
               '"inside the file": 0 <= offset < len(tex), line in 1..#lines, column in '
               '1..len(line)+1 (0-based variants for json/xml)']

DOCS = [('plain', 'Ab cd\nef gh.\n', []),
        ('ctrl', 'Ab\x0c cd\u2028ef\x0b gh\x85\n% \x1c \x1d \x1e\nij kl.\n', []),
        # a LaTeX problem close to the end of the file: the error mark is split, its tail is
        # pinned to the last character
        ('errmark', 'Ab cd\nef \\verb|abc\n', []),
        ('foot', 'Größe\\footnote{Fuß} zwei\ndrei.\n', []),
        ('ml', '\\usepackage[english]{babel}\nOne \\foreignlanguage{german}{zwei drei vier} two.\n',
         ['--multi-language'])]

FIELDS = ['offset', 'length', 'message', 'replacements', 'replacements.0', 'replacements.0.value',
          'context', 'context.text', 'context.offset', 'context.length', 'rule', 'rule.id',
          'rule.subId', 'rule.category', 'rule.category.name', 'rule.urls', 'rule.urls.0',
          'rule.urls.0.value', 'MATCH', 'NONE']
KINDS = ['absent', 'int', 'str', 'list', 'dict', 'none', 'bool', 'float', 'float_int', 'str_nl',
         'str_empty', 'str_surrogate', 'str_br']


def value_of(kind):
    return {'int': 7, 'str': 'x<y>&"z', 'list': [], 'dict': {}, 'none': None, 'bool': True,
            'float': 1.5, 'float_int': 2.0, 'str_nl': 'line one\nline "two"\t<b>', 'str_empty': '',
            'str_surrogate': 'lone \ud800 surrogate',
            # the report generator's own line separator inside a value
            'str_br': 'one<br>\ntwo<br>\n'}[kind]


def base_match(o, l, co, cl):
    return {'offset': o, 'length': l, 'message': 'A message',
            'replacements': [{'value': 'r1'}, {'value': 'r2'}],
            'context': {'text': 'some context text here', 'offset': co, 'length': cl},
            'rule': {'id': 'RULE', 'subId': '2', 'category': {'name': 'Cat'},
                     'urls': [{'value': 'http://x/y'}]}}


def mutate(m, field, kind):
    """put a value of `kind` at `field` of match m (or drop it); returns the match to send"""
    if field == 'NONE':
        return m
    if field == 'MATCH':
        return None if kind == 'absent' else value_of(kind)
    path = field.split('.')
    cur = m
    for p in path[:-1]:
        cur = cur[int(p)] if p.isdigit() else cur[p]
    last = path[-1]
    if last.isdigit():
        if kind == 'absent':
            del cur[int(last)]
        else:
            cur[int(last)] = value_of(kind)
    else:
        if kind == 'absent':
            del cur[last]
        else:
            cur[last] = value_of(kind)
    return m


def infile(tex, lin0, col0):
    lines = tex.split('\n')
    if tex.endswith('\n'):
        lines = lines[:-1]
    return 0 <= lin0 < len(lines) and 0 <= col0 <= len(lines[lin0]) + 1


def run_modes(env, tex, lang, answer_matches, via_bytes=True):
    """all output modes on one answer; returns None or a violation message"""
    cache = {}
    for mode in ('plain', 'json', 'xml', 'xml-b', 'html', 'html-link', 'server'):
        err = io.StringIO()
        try:
            with contextlib.redirect_stderr(err):
                r = (_one_mode if via_bytes else _one_mode_direct)(
                    env, tex, lang, copy.deepcopy(answer_matches), mode, cache)
        except SystemExit as ex:
            if ex.code != 1 or '***' not in err.getvalue():
                return 'C15 mode %s: exit status %r without the shell\'s diagnostic (%r)' % (
                    mode, ex.code, err.getvalue()[:80])
            continue
        except Exception as ex:     # noqa
            return 'C15 mode %s: unhandled %s: %s' % (mode, type(ex).__name__, str(ex)[:120])
        if r:
            return 'C15 mode %s: %s' % (mode, r)
    return None


def _one_mode(env, tex, lang, ms, mode, cache):
    # the answer goes through the real decoding code of run_languagetool: the proofreader
    # process is stubbed at subprocess.run and delivers the answer as JSON bytes
    pr = env.proofreader
    state = {'n': 0}
    blob = json.dumps({'matches': ms}).encode('utf-8')

    class R:
        stdout = b''

    def run(cmd, cwd=None, input=None, stdout=None):
        r = R()
        r.stdout = blob if state['n'] == 0 else b'{"matches": []}'
        state['n'] += 1
        return r
    saved = pr.run_languagetool, pr.subprocess.run

    def real_lt_native(*a):
        # all arguments are concrete here: the decoding runs natively (CrossHair's json
        # model raises other exception types than CPython's decoder)
        try:
            from crosshair.core_and_libs import NoTracing
            from crosshair.core import deep_realize
        except ImportError:
            return shellenv.REAL_LT(*a)
        with NoTracing():
            return shellenv.REAL_LT(*deep_realize(a))
    pr.run_languagetool = real_lt_native
    pr.subprocess.run = run
    try:
        return _one_mode2(env, tex, lang, ms, mode, cache)
    finally:
        pr.run_languagetool, pr.subprocess.run = saved


def _one_mode_direct(env, tex, lang, ms, mode, cache):
    """symbolic offsets / lengths (harnesses range, ctx): the answer is handed over behind the
    JSON decoder (serialising a symbolic integer would make CrossHair enumerate its values)"""
    env.answer = lambda plain, language, n: (copy.deepcopy(ms) if n == 0 else [])
    return _one_mode2(env, tex, lang, ms, mode, cache)


def _one_mode2(env, tex, lang, ms, mode, cache):
    env.calls.clear()
    jget = env.vars.json_get
    if mode == 'server':
        class Srv:
            my_lt_options = []
            my_option_map = env.vars.lt_option_map
            my_proofreader = staticmethod(env.proofreader.run_proofreader_options)
        h = env.server.Handler.__new__(env.server.Handler)
        h.server = Srv()
        msg = h.create_message({'language': [lang], 'text': [tex]})
        json.dumps(msg)
        for m in msg['matches']:
            if not (0 <= m['offset'] < len(tex)):
                return 'offset %r outside the text of length %d' % (m['offset'], len(tex))
        return None
    # the aggregation step is the same for the five report formats: run it once per answer
    if 'agg' not in cache:
        cache['agg'] = env.proofreader.run_proofreader_options(tex, lang, 'WS', '', '', '', [])
    tex_r, plain_tot, cm_tot, matches = cache['agg']
    matches = copy.deepcopy(matches)
    out = io.StringIO()
    if mode == 'plain':
        env.gentext.output_text_report(tex, plain_tot, cm_tot, matches, 'f.tex', out)
        out.getvalue().encode('utf-8')
        for lin, col in re.findall(r'\d+\.\) Line (\d+), column (\d+),', out.getvalue()):
            if not infile(tex, int(lin) - 1, int(col) - 1):
                return 'reports line %s column %s, outside the file' % (lin, col)
    elif mode == 'json':
        env.genjson.output_json(tex, plain_tot, cm_tot, matches, jget, 'f.tex', out)
        for m in json.loads(out.getvalue())['matches']:
            if not (0 <= m['offset'] < len(tex)):
                return 'offset %r outside the text of length %d' % (m['offset'], len(tex))
            pv = m['priv']
            if not infile(tex, pv['fromy'], pv['fromx']):
                return 'reports from (%r,%r), outside the file' % (pv['fromy'], pv['fromx'])
    elif mode in ('xml', 'xml-b'):
        env.genxml.output_xml_report(tex, plain_tot, cm_tot, matches, mode == 'xml-b', 'f.tex',
                                     out)
        out.getvalue().encode('utf-8')
        for e in re.findall(r'<error ([^>]*)/>', out.getvalue()):
            at = dict(re.findall(r'(\w+)="([^"]*)"', e))
            lines = tex.split('\n')
            y, x = int(at['fromy']), int(at['fromx'])
            lim = len(lines[y].encode() if mode == 'xml-b' else lines[y]) + 1 \
                if 0 <= y < len(lines) else -1
            if not (0 <= y < len(lines) - (1 if tex.endswith('\n') else 0) and 0 <= x <= lim):
                return 'reports from (%d,%d), outside the file' % (y, x)
    elif mode in ('html', 'html-link'):
        # html-link: option --link (the rule's URL becomes an attribute value of the report)
        saved_link = env.cmdline.link
        env.cmdline.link = mode == 'html-link'
        try:
            t, a, body, n = env.genhtml.generate_html(tex, cm_tot, matches, 'f.tex')
        finally:
            env.cmdline.link = saved_link
        body.encode('utf-8')          # the shell writes the report to a UTF-8 stream
        nl = tex.count('\n') + (0 if tex.endswith('\n') else 1)
        for num in re.findall(r'valign="top">(\d+)&nbsp;', body):
            if not (1 <= int(num) <= nl):
                return 'shows line number %s of a %d-line file' % (num, nl)
        for ttl in re.findall(r'title="([^"]*)"', body):
            mm = re.search(r'Line&ensp;(\d+)', ttl)
            if mm and not (1 <= int(mm.group(1)) <= nl):
                return 'message located at line %s of a %d-line file' % (mm.group(1), nl)
    return None


def setup(item):
    name, tex, argv = next(d for d in DOCS if d[0] == item['doc'])
    env = shellenv.Env(argv + ['f.tex'])
    return env, tex, 'en-GB'


def items(tier, seed):
    out = []
    for d in DOCS:
        for fi in range(len(FIELDS) - 1):
            out.append({'h': 'shape', 'doc': d[0], 'fi': fi, 'sym': 'kind', 'cost': 2})
        if tier != 'quick' or d[0] in ('plain', 'ctrl', 'errmark'):
            # offset symbolic and unbounded; one work item per length (parallel)
            for lf in ((1,) if (tier == 'quick' and d[0] in ('ctrl', 'errmark')) else ())  or ((-1, 0, 1, 2, 7, 1000) if tier == 'quick' else
                       (-1000, -2, -1, 0, 1, 2, 3, 5, 7, 12, 50, 1000)):
                out.append({'h': 'shape', 'doc': d[0], 'fi': len(FIELDS) - 1, 'sym': 'range',
                            'lfix': lf, 'cost': 9, 'budget': 900})
            out.append({'h': 'shape', 'doc': d[0], 'fi': len(FIELDS) - 1, 'sym': 'ctx',
                        'cost': 9, 'budget': 900})
        out.append({'h': 'trunc', 'doc': d[0], 'cost': 5})
    out.append({'h': 'shape', 'doc': 'plain', 'fi': len(FIELDS) - 1, 'sym': 'kind', 'twin': True})
    out.append({'h': 'trunc', 'doc': 'plain', 'twin': True})
    return out


ANSWERS = [
    {'matches': [base_match(0, 2, 3, 4)]},
    {'software': {'name': 'LT'}, 'matches': [
        {'offset': 1, 'length': 3, 'message': 'Größe “x” \u2028 é', 'replacements': [{'value': 'ü'}],
         'context': {'text': 'é…', 'offset': 0, 'length': 1},
         'rule': {'id': 'R', 'category': {'name': 'Ç'}}}]},
]
SHAPES = ['', ' ', '[]', '{}', 'null', '3', '"x"', '{"matches": 3}', '{"matches": null}',
          '{"matches": [3]}', '{"matches": [[]]}', '{"matches": [null]}', '{"matches": {}}',
          '{"Matches": []}', '{"matches": []} trailing', '\ufeff{"matches": []}', 'NaN',
          '{"matches": [{"offset": 1e400, "length": 1}]}',
          '[' * 3000, '{"matches": ' + '[' * 3000 + ']' * 3000 + '}',
          '{"matches": [{"offset": 0, "length": 1, "x": ' + '{"a": ' * 2500 + '1' + '}' * 2500 + '}]}']


def build(item):
    env, tex, lang = setup(item)
    twin = bool(item.get('twin'))
    try:
        from vf import driver as D
        from crosshair.core_and_libs import NoTracing as nt
    except ImportError:
        D = None
    real_t2t = yal.tex2txt.tex2txt
    from vf.props.c14 import native_filter

    def with_native_filter(f):
        env.proofreader.tex2txt.tex2txt = native_filter(env)
        try:
            return f()
        finally:
            env.proofreader.tex2txt.tex2txt = real_t2t

    if item['h'] == 'shape':
        field = FIELDS[item['fi']]

        def check(ki, o, l, co, cl):
            m = mutate(base_match(o, l, co, cl), field, KINDS[ki])
            ms = [m] if not (field == 'MATCH' and KINDS[ki] == 'absent') else []
            r = with_native_filter(lambda: run_modes(
                env, tex, lang, ms, via_bytes=(item.get('sym', 'kind') == 'kind')))
            if twin:
                return 'TWIN' if r is None else r
            return r

        sym = item.get('sym', 'kind')

        def prop(ki: int, o: int, l: int, co: int, cl: int):
            # one symbolic dimension per item; the others are pinned
            if sym == 'kind':
                if not (0 <= ki < len(KINDS)) or o != 1 or l != 2 or co != 3 or cl != 4:
                    return D.SKIP
            elif sym == 'range':
                if ki != 0 or co != 3 or cl != 4 or l != item.get('lfix', 1):
                    return D.SKIP
            else:
                if ki != 0 or o != 1 or l != 2 or not (-2 <= co <= 9) or not (-2 <= cl <= 9):
                    return D.SKIP
            return check(ki, o, l, co, cl) or True

        def concrete(w):
            if not (0 <= w['ki'] < len(KINDS)) or not (-2 <= w['co'] <= 50) \
                    or not (-2 <= w['cl'] <= 50):
                return None
            return check(w['ki'], w['o'], w['l'], w['co'], w['cl'])
        return prop, concrete

    # ---- trunc: byte truncations and wrong shapes through the real decoding code
    blobs = [json.dumps(a, ensure_ascii=False).encode('utf-8') for a in ANSWERS]
    blobs += [s.encode('utf-8') for s in SHAPES] + [b'\xff\xfe{}', b'{"matches": []}\xc3']

    def check_bytes(data):
        pr = env.proofreader

        class R:
            stdout = data

        def run(cmd, cwd=None, input=None, stdout=None):
            return R()
        saved = pr.run_languagetool, pr.subprocess.run
        pr.run_languagetool = shellenv.REAL_LT
        pr.subprocess.run = run
        err = io.StringIO()
        try:
            with contextlib.redirect_stderr(err):
                matches = pr.run_languagetool('Ab cd', 'en-GB', '', '', '', '', [])
        except SystemExit as ex:
            if ex.code != 1 or '***' not in err.getvalue():
                return 'C15 exit %r without diagnostic on answer %r' % (ex.code, data[:60])
            return 'TWIN' if twin else None
        except Exception as ex:     # noqa
            return 'C15 unhandled %s on answer bytes %r: %s' % (type(ex).__name__, data[-40:],
                                                                str(ex)[:100])
        finally:
            pr.run_languagetool, pr.subprocess.run = saved
        r = with_native_filter(lambda: run_modes(env, tex, lang, matches))
        if twin:
            return 'TWIN' if r is None else r
        return r

    def prop(bi: int, k: int):
        if not (0 <= bi < len(blobs)):
            return D.SKIP
        data = blobs[bi]
        if not (0 <= k <= len(data)):
            return D.SKIP
        if bi >= len(ANSWERS) and k != len(data):
            return D.SKIP
        return check_bytes(data[:k]) or True

    def concrete(w):
        if not (0 <= w['bi'] < len(blobs)) or not (0 <= w['k'] <= len(blobs[w['bi']])):
            return None
        return check_bytes(blobs[w['bi']][:w['k']])
    return prop, concrete


def run_item(item):
    prop, concrete = build(item)
    return harness.run(prop, concrete, item, budget_s=harness.budget(item, 200), per_path_s=30,
                       validate=True)


def replay(rep):
    prop, concrete = build(rep['item'])
    return concrete(rep['witness'])
