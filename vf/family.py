"""The enumerated document family (structure dimension) over the construct catalogue.

Documents are described by JSON-able specs, e.g.
    ['cat', ['T', 'Alpha'], ' ', ['unknown', 'zzfoo', ['T', 'Beta']]]
and turned into vf.docs nodes by build().  Families: singles, ordered pairs x layout
separators, one-level nestings (thorough: two levels), repeated uses of definitions.
"""
import itertools
import random

from vf import docs

_DEFNS = {}


def build(spec):
    if isinstance(spec, str):
        return spec
    if isinstance(spec, (int, float)) or spec is None:
        return spec
    if isinstance(spec, dict):
        return spec
    head = spec[0]
    if head == 'Defn':
        key = repr(spec)
        if key not in _DEFNS:
            name, nargs, body, default, how = spec[1:6]
            _DEFNS[key] = docs.Defn(name, nargs, list(body), default, how)
        return _DEFNS[key]
    if head == 'defnode':
        return build(spec[1]).node()
    if head == 'call':
        d = build(spec[1])
        kw = {}
        rest = spec[2:]
        if rest and isinstance(rest[-1], dict):
            kw = dict(rest[-1])
            rest = rest[:-1]
        if 'opt' in kw:
            kw['opt'] = _node(build(kw['opt']))
        if 'bare' in kw:
            kw['bare'] = tuple(kw['bare'])
        return d.call(*[_node(build(a)) for a in rest], **kw)
    if head == 'items':
        env = spec[1]
        its = [(None if a is None else _node(build(a)), _node(build(b))) for a, b in spec[2]]
        return docs.item_env(env, its)
    if not isinstance(head, str) or not hasattr(docs, head):
        return tuple(spec)
    fn = getattr(docs, head)
    args = []
    kw = {}
    for a in spec[1:]:
        if isinstance(a, dict):
            kw.update({k: (_node(build(v)) if isinstance(v, list) else v) for k, v in a.items()})
        elif isinstance(a, list):
            args.append(build(a))
        else:
            args.append(a)
    return fn(*args, **kw)


def _node(x):
    return docs.raw(x) if isinstance(x, str) and not x.strip() else (
        docs.T(x) if isinstance(x, str) else x)


def T(s):
    return ['T', s]


ATOMS = [T('Alpha'), T('Beta x'), T('Gamma, delta'), T('Ünï ж'), T('E')]

FOO = ['Defn', 'foo', 2, ['X ', 1, ' Y ', 2, ' Z'], None, 'newcommand']
FOP = ['Defn', 'fop', 2, ['<', 1, '|', 2, '>'], 'dd', 'newcommand']
TW = ['Defn', 'tw', 1, [1, ' and ', 1], None, 'newcommand']
DQ = ['Defn', 'dq', 2, ['[', 2, '|', 1, ']'], None, 'def']
ZERO = ['Defn', 'zero', 0, ['Nil'], None, 'newcommand']
DROP = ['Defn', 'drop', 2, ['(', 2, ')'], None, 'newcommand']
FT2 = ['Defn', 'ftwo', 1, ['See', ['foot', 'first note'], ' ', 1, ['foot', 'second note']], None,
       'newcommand']
DEFS = [FOO, FOP, TW, DQ, ZERO, DROP, FT2]
PREAMBLE = ['cat'] + [['defnode', d] for d in DEFS] + [['newtheorem'], ['newtheorem', 'rem', 'Remark', '*'],
                                                       ['glsdefs'], '\n']

# constructs without a text child
INLINES = {
    'label': ['label'],
    'index': ['index'],
    'ltskip': ['ltskip', T('zz')],
    'vphantom': ['vphantom', T('q')],
    'comment': ['comment', ' cmt'],
    'skip': ['skip_region'],
    'comment_skip': ['cat', ['comment', ' cmt'], ['skip_region'], T('Vis')],
    'text_comment_skip': ['cat', T('Vis '), ['comment', 'c'], ['skip_region', 'q \\zz\n% inner comment'], T('Vis')],
    'macro_defines_macro': ['cat', ['G', '\\newcommand{\\defterm}[2]{\\newcommand{#1}{#2 (defined term)}}', None],
                            ['G', '\\defterm{\\foox}{Foo}', None], '\n', ['G', '\\foox', 'Foo\\(definedterm\\)'],
                            ' ', T('mid'), ' ', ['G', '\\foox', 'Foo\\(definedterm\\)']],
    'tikz': ['removed_env'],
    'ref': ['ref'],
    'pageref': ['ref', 'kz', 'pageref'],
    'eqref': ['ref', 'ky', 'eqref'],
    'cite': ['cite'],
    'cite_opt': ['cite', 'kq', T('p. 3')],
    'cite_brack': ['cite', 'kq', ['group', T('see [3]')]],
    'chapter_brack': ['heading', T('Title'), 'chapter', '', ['group', T('[a,b]')]],
    'items_punct': ['cat', T('Intro:'), ' ', ['items', 'itemize', [[T('a'), T('First.')], [T('b'), T('Second;')], [T('c'), T('Third')]]]],
    'verb': ['verb', 'x y'],
    'verb2': ['verb', '\\z{', '+'],
    'verb_dollar': ['verb', '$'],
    'verb_braces': ['cat', ['verb', '{'], ' ', ['verb', '}x']],
    'verb_pct': ['verb', '100%', '!'],
    'endash': ['special', '--'],
    'emdash': ['special', '---'],
    'quotes': ['cat', ['special', '``'], T('Q'), ['special', "''"]],
    'tie': ['special', '~'],
    'thin': ['special', '\\,'],
    'pct': ['special', '\\%'],
    'amp': ['special', '\\&'],
    'lbrace': ['special', '\\{'],
    'linebreak': ['special', '\\\\'],
    'tab': ['special', '&'],
    'accent': ['accent', '\\"', 'a'],
    'accent_b': ['accent', "\\'", 'e', True],
    'accent_w': ['accent', '\\v', 'S'],
    'math': ['inline_math', 'x+y'],
    'math_p': ['inline_math', 'z^2.'],
    'math_paren': ['inline_math', 'a', 'en', ['\\(', '\\)']],
    'zero': ['call', ZERO],
    'gls': ['gls'],
    'Gls': ['gls', 'Gls', 'Alpha beta'],
    'GLSpl': ['gls', 'GLSpl', 'ALPHAS'],
    'glsdesc': ['gls', 'glsdesc', 'a desc'],
    'unknown0': ['unknown', 'zzbar'],
    'missing_arg_par': ['cat', ['G', '\\tw', 'and'], '\n\n', T('Next')],
}

# constructs with one text child
WRAPPERS = {
    'unknown': lambda c: ['unknown', 'zzfoo', c],
    'unknown2': lambda c: ['unknown', 'zzfoo', T('One'), c],
    'textbf': lambda c: ['unknown', 'textbf', c],
    'textcolor': lambda c: ['passthru', 'textcolor', c, '{red}'],
    'framebox': lambda c: ['passthru', 'framebox', c, '[3cm][l]'],
    'ltadd': lambda c: ['ltadd', c],
    'ltalter': lambda c: ['ltalter', T('qq'), c],
    'group': lambda c: ['group', c],
    'section': lambda c: ['heading', c],
    'subsection*': lambda c: ['heading', c, 'subsection', '*'],
    'chapter_opt': lambda c: ['heading', c, 'chapter', '', T('sh')],
    'footnote': lambda c: ['footnote', c],
    'caption': lambda c: ['footnote', c, 'caption', 'sh'],
    'itemize': lambda c: ['items', 'itemize', [[None, c], [T('x'), T('Second')]]],
    'enumerate': lambda c: ['items', 'enumerate', [[None, T('First')], [None, c]]],
    'theorem': lambda c: ['theorem', ['cat', '\n', c, '\n']],
    'theorem_star': lambda c: ['theorem', ['cat', '\n', c, '\n'], 'rem', 'Remark'],
    'theorem_opt': lambda c: ['theorem', ['cat', '\n', T('Body'), '\n'], 'thm', 'Theorem', c],
    'proof': lambda c: ['proof', ['cat', '\n', c, '\n']],
    'proof_opt': lambda c: ['proof', ['cat', '\n', T('Body'), '\n'], c],
    'href': lambda c: ['href', 'u', c],
    'unknown_env': lambda c: ['unknown_env', 'zzenv', ['cat', '\n', c, '\n']],
    'foo1': lambda c: ['call', FOO, c, T('Two')],
    'foo2': lambda c: ['call', FOO, T('One'), c],
    'fop_default': lambda c: ['call', FOP, c],
    'fop_opt': lambda c: ['call', FOP, c, {'opt': T('q')}],
    'fop_optarg': lambda c: ['call', FOP, T('One'), {'opt': c}],
    'twice': lambda c: ['call', TW, c],
    'def': lambda c: ['call', DQ, c, T('Two')],
    'drop': lambda c: ['call', DROP, T('gone'), c],
    'ftwo': lambda c: ['call', FT2, c],
    'cite_optarg': lambda c: ['cite', 'kq', c],
}
# wrappers whose child must be "simple" (no paragraph material, no detached flows)
SIMPLE_CHILD = {'section', 'subsection*', 'chapter_opt', 'theorem_opt', 'proof_opt', 'cite_optarg',
                'fop_optarg', 'href'}
# inlines that must not stand inside an argument (TeX: verbatim material, comments eat the brace)
TOPLEVEL_ONLY = {'comment_skip', 'text_comment_skip', 'macro_defines_macro', 'verb', 'verb2', 'verb_dollar', 'verb_braces', 'verb_pct', 'comment', 'skip', 'tikz'}
# wrappers that lose text by design (argument dropped): children hidden -> not wrappers of flows
SEPS = [' ', '\n', '', ' \n  ', '\n\n']
OPTS = {'pack': '*'}


def doc(*body):
    return ['cat', PREAMBLE, T('Start'), ' '] + list(body) + [' ', T('End.')]


def singles():
    out = []
    for name, sp in INLINES.items():
        out.append(('in:' + name, doc(sp)))
    for name, w in WRAPPERS.items():
        for i, a in enumerate(ATOMS[:2]):
            out.append(('wr:%s:%d' % (name, i), doc(w(a))))
    return out


def pairs(seed, limit=None):
    out = []
    names = [('in', k) for k in INLINES] + [('wr', k) for k in WRAPPERS]
    rnd = random.Random(seed)

    def mk(kind, k, atom):
        return INLINES[k] if kind == 'in' else WRAPPERS[k](atom)
    allp = list(itertools.product(names, names, range(len(SEPS))))
    rnd.shuffle(allp)
    for (k1, n1), (k2, n2), si in allp:
        sep = SEPS[si]
        if sep == '':
            # glued constructs must not form a different token sequence ($$, ---, \\zeroVis)
            import re as _re
            s1 = build(mk(k1, n1, ATOMS[0])).src
            s2 = build(mk(k2, n2, ATOMS[1])).src
            if (_re.search(r'\\[A-Za-z]+$', s1) and s2[:1].isalpha()) or (
                    s1[-1:] in "$-`'" and s2[:1] == s1[-1:]) or s1[-1:] == '\\':
                continue
        out.append(('pair:%s+%s/%d' % (n1, n2, si),
                    doc(mk(k1, n1, ATOMS[0]), sep, mk(k2, n2, ATOMS[1]))))
        if limit and len(out) >= limit:
            break
    return out


def nestings(seed, limit=None, depth=1):
    out = []
    rnd = random.Random(seed + 17)
    combos = []
    for wn, w in WRAPPERS.items():
        for inn in INLINES:
            if inn in TOPLEVEL_ONLY:
                continue
            combos.append((wn, 'in', inn))
        for wn2 in WRAPPERS:
            if wn in SIMPLE_CHILD and wn2 in ('itemize', 'enumerate',
                                              'theorem', 'theorem_star', 'proof', 'unknown_env', 'section',
                                              'subsection*', 'chapter_opt', 'theorem_opt',
                                              'proof_opt'):
                continue
            if wn in SIMPLE_CHILD and wn2 in ('footnote', 'caption', 'ftwo') and wn not in (
                    'section', 'subsection*', 'chapter_opt'):
                continue
            combos.append((wn, 'wr', wn2))
    rnd.shuffle(combos)
    # an optional argument [..] ends at the first ']' (as in TeX): no bracketed child there
    opt_slot = {'theorem_opt', 'proof_opt', 'cite_optarg', 'fop_optarg'}
    bracketed = {'framebox', 'fop_opt', 'fop_optarg', 'cite_opt', 'chapter_opt', 'caption',
                 'cite_brack', 'chapter_brack', 'items_punct',
                 'itemize', 'theorem_opt', 'proof_opt', 'cite_optarg'}
    combos = [c for c in combos if not (c[0] in opt_slot and c[2] in bracketed)]
    # order of a detached flow nested in another detached flow, and the multiplicity of a
    # footnote inside a twice-used argument, are left open by the properties: not generated
    det = {'footnote', 'caption'}
    combos = [c for c in combos if not (c[2] in det and c[0] in det)]
    # (the same for a macro whose body holds footnotes)
    combos = [c for c in combos if not ('ftwo' in (c[0], c[2]) and
                                        (c[0] in det | {'ftwo', 'twice'} and c[2] in det | {'ftwo'}))]
    # children most likely to interact with the enclosing construct come first
    prio = {'lbrace', 'pct', 'math', 'math_p', 'footnote', 'label', 'cite_opt', 'accent',
            'twice', 'foo1', 'linebreak', 'emdash'}
    combos.sort(key=lambda c: 0 if c[2] in prio else 1)
    for wn, kind, inner in combos:
        if kind == 'in':
            child = ['cat', T('Pre'), ' ', INLINES[inner], ' ', T('post')]
        else:
            child = ['cat', T('Pre'), ' ', WRAPPERS[inner](ATOMS[1]), ' ', T('post')]
        out.append(('nest:%s(%s)' % (wn, inner), doc(WRAPPERS[wn](child))))
        if limit and len(out) >= limit:
            break
    return out


def repeats():
    """second use of the same definition / construct, use inside its own argument"""
    out = []
    for name, w in WRAPPERS.items():
        out.append(('rep:%s' % name, doc(w(ATOMS[0]), ' ', T('mid'), ' ', w(ATOMS[1]))))
    for name in ('foo1', 'twice', 'fop_default', 'def', 'textbf', 'unknown'):
        w = WRAPPERS[name]
        out.append(('self:%s' % name, doc(w(['cat', T('In'), ' ', w(ATOMS[0]), ' ', T('out')]))))
    for g in ('gls', 'Gls', 'GLSpl'):
        out.append(('rep:' + g, doc(INLINES[g], ' ', T('mid'), ' ', INLINES['gls'], ' ', INLINES[g])))
    out.append(('maths8', doc(*sum([[['inline_math', 'x_%d' % i, 'en', ['$', '$'], i], ' ',
                                      T('w%d' % i), ' '] for i in range(8)], []))))
    return out


def family(tier, seed):
    fam = singles() + repeats()
    if tier == 'quick':
        fam += pairs(seed, 150) + nestings(seed, 420)
    else:
        fam += pairs(seed, 2500) + nestings(seed, None)
    return fam
