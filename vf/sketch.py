"""E1-chr: the whole filter on a document sketch PRE . h . POST with the hole h symbolic
(characters of a class, length <= L).

The sketch is spliced at token level: the real scanner runs natively on PRE and POST and
symbolically (traced by CrossHair) on the hole alone; token lists are concatenated with
shifted positions.  Per path:  symbolic run -> witness h0 from the model -> the real string
PRE+h0+POST goes natively through the unmodified filter -> LINK: z3 proves that for EVERY hole
content of this path the output is the native output with the characters copied from the
hole replaced by the hole's own (symbolic) characters, and the positions are the native ones
-> the concrete oracle judges the native run.  A path whose LINK fails while the native run
is fine is counted as unknown (splice not valid there), never as held.
"""
from vf import family, yal
from vf.yal import tex2txt

MARK0, MARK1 = '', ''
HOLE = MARK0 + MARK1


class Sketch(str):
    def __new__(cls, parts):
        o = str.__new__(cls, '')
        o.parts = parts
        return o

    def __len__(self):
        return sum(len(p) for p in self.parts)

    def __bool__(self):
        return True


def install(parms):
    real = parms.scanner.scan

    def scan(x):
        if not isinstance(x, Sketch):
            return real(x)
        from crosshair.core_and_libs import NoTracing
        toks = []
        off = 0
        for i, p in enumerate(x.parts):
            if i % 2 == 0:
                with NoTracing():
                    ts = real(p)
            else:
                ts = real(p)
            for t in ts:
                t.pos = t.pos + off
            toks += ts
            off = off + len(p)
        return toks
    parms.scanner.scan = scan


# ---- hole classes: sets of code-point ranges.  Under CrossHair the class (and the length
# bound) become ONE z3 constraint on the hole's code points -> a single fork, instead of one
# fork per disjunct of an or-chain.

def R(*xs):
    out = []
    for x in xs:
        if isinstance(x, str) and len(x) == 1:
            out.append((ord(x), ord(x)))
        elif isinstance(x, str):
            a, b = x.split('..')
            out.append((ord(a), ord(b)))
        else:
            out.append(x)
    return out


def minus(ranges, chars):
    bad = sorted(ord(c) for c in chars)
    out = []
    for a, b in ranges:
        lo = a
        for x in bad:
            if lo <= x <= b:
                if lo <= x - 1:
                    out.append((lo, x - 1))
                lo = x + 1
        if lo <= b:
            out.append((lo, b))
    return out


CLASSES = {
    'WORD': R('a..z', 'A..Z', '0..9', 'À..Ö', 'Ø..ö', 'ø..ſ', 'А..я'),
    'SPACE': R(' ', '\n', '\t'),
    'BLANK': R(' ', '\t'),
    # label / key / file-name like: printable, no grouping, escape, comment, parameter, brackets
    'HIDDEN': minus(R('!..~', 'À..ſ', ' '), '{}\\%#[]'),
    'COMMENT': R(' ..~', 'À..ſ', '\t'),
    # non-blank, non-active characters (any script, incl. format characters such as U+FEFF)
    'PROSEW': minus([(0x21, 0x7E), (0xA1, 0xD7FF), (0xE000, 0x2FFFF)], '\\%#${}&~^_-`\'"[]'),
    # the characters LaTeX / YaLafi treat specially + a letter, a digit, blank, line break
    'SYNTAX': R('{', '}', '[', ']', '\\', '%', '#', '$', '&', '~', '^', '_', '=', ',', '-', '"', "'", '`', ' ', '\n', 'a', '1', '*', '|'),
    # every code point except the active characters that are not in the documented table
    'PROSE': minus([(1, 0xD7FF), (0xE000, 0x2FFFF)], '\\%#${}'),
    'ALPHA': R('a..z', 'A..Z'),
    # file-name / key like text without characters that form special sequences
    'NAME': R('a..z', 'A..Z', '0..9', 'À..Ö', 'Ø..ö', '.', '/', ':', '+', '=', ',', '!', '?'),
    'MATH': minus(R('!..~', ' ', 'α..ω'), '$\\%{}#&[]'),
    'ASCII': R(' ..~', '\n', '\t'),
    'ANY': [(0, 0x10FFFF)],
    'ANYBMP': minus([(1, 0xD7FF)], ''),
}


def in_class(cls, c):
    o = ord(c)
    return any(a <= o <= b for a, b in CLASSES[cls])


def subst(spec, content):
    if isinstance(spec, str):
        return spec.replace('@H@', content)
    if isinstance(spec, list):
        return [subst(x, content) for x in spec]
    if isinstance(spec, dict):
        return {k: subst(v, content) for k, v in spec.items()}
    return spec


def split(spec):
    """(PRE, POST) of the document described by spec with the hole marker @H@"""
    node = family.build(subst(spec, HOLE))
    i = node.src.index(HOLE)
    assert node.src.count(HOLE) == 1
    return node.src[:i], node.src[i + len(HOLE):]


def covers(cls, parts):
    """True iff the union of the range lists in parts contains the character class cls
    (work partitions by first character must not lose members of the class)"""
    un = [r for p in parts for r in p]
    for a, b in CLASSES[cls]:
        x = a
        while x <= b:
            hit = [r for r in un if r[0] <= x <= r[1]]
            if not hit:
                return False
            x = max(r[1] for r in hit) + 1
    return True


def make(pre, post, cls, L, optsd, oracle, ml=False, lmin=0, twin=False, node_of=None,
         accept_exit=False, splice=True, win=None, first_ranges=None, exc_tag=None):
    """oracle(h0, doc, result_flat, diags) -> None / failure message.
    returns (prop, concrete)"""
    from vf.offrun import flatten
    ranges = CLASSES[cls]

    def pred(c):
        return in_class(cls, c)

    def concrete(w):
        h0 = w['h']
        if not (lmin <= len(h0) <= L) or not all(pred(c) for c in h0):
            from vf.driver import SKIP      # only reached under python3-vt
            return SKIP
        return concrete_check(h0)

    def concrete_check(h0):
        doc = pre + h0 + post
        try:
            res, diags, err = yal.run_native(doc, yal.mkopts(optsd), ml)
        except SystemExit as ex:
            return None if accept_exit else 'filter stopped with SystemExit(%r) on %r' % (
                ex.code, doc)
        except Exception as ex:      # noqa: a crash of the filter
            if exc_tag:
                return '%s unhandled %s: %s on input %r' % (exc_tag, type(ex).__name__,
                                                            str(ex)[:100], doc)
            return None
        flat = flatten(res)
        for lab, plain, cm in flat:
            if len(plain) != len(cm):
                return 'C01 length mismatch'
        if twin:
            return 'TWIN'
        return oracle(h0, doc, flat, diags)

    try:
        from vf import driver as D
        import z3
    except ImportError:
        return None, (lambda w: concrete_check(w['h']))
    opts = yal.mkopts(optsd)

    def prop(h: str):
        if len(h) > L or len(h) < lmin:
            return D.SKIP
        hcodes = [ord(c) for c in h]
        with D.NoTracing():
            cons = [z3.Or(*[z3.And(D.z3var(o) >= a, D.z3var(o) <= b) for a, b in ranges])
                    for o in hcodes]
            if first_ranges is not None and hcodes:
                # work partition: this item only covers strings whose first character lies here
                cons.append(z3.Or(*[z3.And(D.z3var(hcodes[0]) >= a, D.z3var(hcodes[0]) <= b)
                                    for a, b in first_ranges]))
            okc = D.SymbolicBool(z3.And(*cons)) if cons else True
        if not okc:
            return D.SKIP
        # splice=False: the scanner runs symbolically on the whole text (needed where the
        # scanner looks ahead across the hole: \\begin .. {verbatim}, comments, \\verb)
        if win is not None:
            # partial splice: a window around the hole is scanned symbolically as one text
            a, b = win
            sk = Sketch([pre[:len(pre) - a], pre[len(pre) - a:] + h + post[:b], post[b:]])
        else:
            sk = Sketch([pre, h, post]) if splice else pre + h + post
        exited = None
        with yal.symbolic_stderr() as rec:
            try:
                res = tex2txt.tex2txt(sk, opts, ml, install if (splice or win) else None)
            except SystemExit as ex:
                exited = ex
        if exited is None:
            sflat = flatten(res)
            codes = [[ord(c) for c in sp] for _lab, sp, _cm in sflat]
        with D.NoTracing():
            model = D._model()
            h0 = D._peek(h, model)
            doc = pre + h0 + post
            try:
                nres, ndiags, _err = yal.run_native(doc, opts, ml)
                nex = None
            except SystemExit as ex:
                nres, ndiags, nex = None, [], ex
            except Exception as ex:      # noqa: crash of the filter on the witness
                if exc_tag:
                    return D.Fail(concrete_check(h0), {'h': h0})
                raise D.UnexploredPath('native run crashed: ' + repr(ex)[:100])
            if exited is not None or nex is not None:
                if (exited is None) != (nex is None):
                    raise D.UnexploredPath('LINK exit mismatch')
                return True if accept_exit else 'filter stopped with SystemExit on %r' % (doc,)
            nflat = flatten(nres)
            ok = [x[0] for x in sflat] == [x[0] for x in nflat]
            conj = []
            if ok:
                for (lab, sp, scm), (_l, np_, ncm), cs in zip(sflat, nflat, codes):
                    if len(cs) != len(np_) or list.__len__(list(scm)) != len(ncm):
                        ok = False
                        break
                    for k in range(len(np_)):
                        conj.append(D.z3var(scm[k]) == ncm[k])
                        j = ncm[k] - 1 - len(pre)
                        if 0 <= j < len(h0) and np_[k] == h0[j]:
                            conj.append(D.z3var(cs[k]) == D.z3var(hcodes[j]))
                        else:
                            conj.append(D.z3var(cs[k]) == ord(np_[k]))
            if ok and len(rec.events) != len(ndiags):
                ok = False
            if ok:
                for (sl, sc, _t), (nl, nc, _nt) in zip(rec.events, ndiags):
                    conj.append(D.z3var(sl) == nl)
                    conj.append(D.z3var(sc) == nc)
            if ok and conj and not exc_tag:
                ok = D.must_hold(z3.And(*conj))
            if exc_tag:
                # totality only: the symbolic run itself covered every member of the path
                # class without raising; the native run on the witness is a validation
                ok = True
            verdict = concrete_check(h0)
            if not ok:
                if verdict is None:
                    raise D.UnexploredPath('LINK failed on %r (splice or content-dependent '
                                           'output); native run is fine' % (doc[-60:],))
                return D.Fail(verdict, {'h': h0})
            D.EXTRA['validated'] += 1
            return True if verdict is None else D.Fail(verdict, {'h': h0})
    return prop, (lambda w: concrete_check(w['h']))


def make2(c0, c1, c2, cls, L, optsd, oracle, lmins=(0, 0), wins=((0, 0), (0, 0)), twin=False):
    """two holes: c0 . h1 . c1 . h2 . c2 (both of class cls, length <= L).
    wins[k] = (a, b): a characters before and b characters after hole k are scanned
    symbolically together with it (partial splice).  oracle(h1, h2, doc, flat, diags)."""
    from vf.offrun import flatten
    ranges = CLASSES[cls]

    def concrete_check(h1, h2):
        doc = c0 + h1 + c1 + h2 + c2
        res, diags, err = yal.run_native(doc, yal.mkopts(optsd))
        flat = flatten(res)
        if twin:
            return 'TWIN'
        return oracle(h1, h2, doc, flat, diags)

    def ok_w(w):
        return all(lmins[k] <= len(w[n]) <= L and all(in_class(cls, c) for c in w[n])
                   for k, n in enumerate(('h1', 'h2')))
    try:
        from vf import driver as D
        import z3
    except ImportError:
        return None, (lambda w: concrete_check(w['h1'], w['h2']) if ok_w(w) else None)
    opts = yal.mkopts(optsd)
    (a1, b1), (a2, b2) = wins
    assert b1 + a2 <= len(c1)

    def prop(h1: str, h2: str):
        if len(h1) > L or len(h1) < lmins[0] or len(h2) > L or len(h2) < lmins[1]:
            return D.SKIP
        hc = [[ord(c) for c in h1], [ord(c) for c in h2]]
        with D.NoTracing():
            cons = [z3.Or(*[z3.And(D.z3var(o) >= a, D.z3var(o) <= b) for a, b in ranges])
                    for o in hc[0] + hc[1]]
            okc = D.SymbolicBool(z3.And(*cons)) if cons else True
        if not okc:
            return D.SKIP
        sk = Sketch([c0[:len(c0) - a1], c0[len(c0) - a1:] + h1 + c1[:b1],
                     c1[b1:len(c1) - a2], c1[len(c1) - a2:] + h2 + c2[:b2], c2[b2:]])
        with yal.symbolic_stderr() as rec:
            res = tex2txt.tex2txt(sk, opts, False, install)
        sflat = flatten(res)
        codes = [[ord(c) for c in sp] for _lab, sp, _cm in sflat]
        with D.NoTracing():
            model = D._model()
            w1, w2 = D._peek(h1, model), D._peek(h2, model)
            doc = c0 + w1 + c1 + w2 + c2
            nres, ndiags, _err = yal.run_native(doc, opts)
            nflat = flatten(nres)
            ok = len(sflat) == len(nflat)
            conj = []
            o1 = len(c0)
            o2 = len(c0) + len(w1) + len(c1)
            if ok:
                for (lab, sp, scm), (_l, np_, ncm), cs in zip(sflat, nflat, codes):
                    if len(cs) != len(np_) or list.__len__(list(scm)) != len(ncm):
                        ok = False
                        break
                    for k in range(len(np_)):
                        conj.append(D.z3var(scm[k]) == ncm[k])
                        p = ncm[k] - 1
                        if o1 <= p < o1 + len(w1) and np_[k] == w1[p - o1]:
                            conj.append(D.z3var(cs[k]) == D.z3var(hc[0][p - o1]))
                        elif o2 <= p < o2 + len(w2) and np_[k] == w2[p - o2]:
                            conj.append(D.z3var(cs[k]) == D.z3var(hc[1][p - o2]))
                        else:
                            conj.append(D.z3var(cs[k]) == ord(np_[k]))
            if ok and len(rec.events) != len(ndiags):
                ok = False
            if ok and conj:
                ok = D.must_hold(z3.And(*conj))
            verdict = concrete_check(w1, w2)
            if not ok:
                if verdict is None:
                    raise D.UnexploredPath('LINK failed on %r; native run is fine' % (doc[-60:],))
                return D.Fail(verdict, {'h1': w1, 'h2': w2})
            D.EXTRA['validated'] += 1
            return True if verdict is None else D.Fail(verdict, {'h1': w1, 'h2': w2})
    return prop, (lambda w: concrete_check(w['h1'], w['h2']) if ok_w(w) else None)
