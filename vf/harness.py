"""glue between a property module's harness (prop, concrete) and the runner"""
import os


def budget(item, default):
    return float(os.environ.get('VERIF_ITEM_BUDGET', item.get('budget', default)))


def run(prop, concrete, item, budget_s=60.0, per_path_s=20.0, validate=False, max_fails=2,
        witness_filter=None):
    from vf import driver as D
    ex = D.explore(prop, budget_s=budget_s, per_path_s=per_path_s,
                   validate=(concrete if validate else None), max_fails=max_fails,
                   witness_filter=witness_filter)
    r = ex.as_dict()
    r['fails'] = [{'witness': f['witness'], 'msg': f['msg'],
                   'replay': {'h': item.get('h'), 'item': item, 'witness': f['witness']}}
                  for f in ex.fails]
    return r


def smt_result(obligations, discharged, fails, queries, solver_s, samples, item):
    """result record for direct SMT (E2/E3) items"""
    return {'paths': obligations, 'nontrivial': obligations, 'unknown': obligations - discharged
            - len(fails), 'exhausted': discharged + len(fails) == obligations,
            'smt_queries': queries, 'queries': 0, 'solver_s': solver_s, 'validated': 0,
            'samples': samples,
            'fails': [{'witness': f['witness'], 'msg': f['msg'],
                       'replay': {'h': item.get('h'), 'item': item, 'witness': f['witness']}}
                      for f in fails]}
