"""glue between a property module's harness (prop, concrete) and the runner"""
import os


def budget(item, default):
    return float(os.environ.get('VERIF_ITEM_BUDGET', item.get('budget', default)))


def run(prop, concrete, item, budget_s=60.0, per_path_s=20.0, validate=False, max_fails=2,
        witness_filter=None):
    from vf import driver as D
    ex = D.explore(prop, budget_s=budget_s, per_path_s=per_path_s,
                   validate=(concrete if validate else None), max_fails=max_fails,
                   witness_filter=witness_filter)
    # abandoned paths (solver/path time-out, unsupported operation): their inputs are run
    # natively under a wall-clock alarm -- a crash or a hang of the real code is a finding
    if ex.unknown_witnesses and concrete is not None:
        for w in ex.unknown_witnesses:
            v = native_guarded(concrete, w)
            if v is not None and v is not True and not isinstance(v, D.Skip):
                ex.fails.append({'witness': w, 'msg': 'NATIVE-ONLY ' + str(v)[:300]})
    r = ex.as_dict()
    r['fails'] = [{'witness': f['witness'], 'msg': f['msg'],
                   'replay': {'h': item.get('h'), 'item': item, 'witness': f['witness']}}
                  for f in ex.fails]
    return r


class _Alarm(Exception):
    pass


def native_guarded(concrete, w, seconds=20):
    import signal

    def on_alarm(signum, frame):
        raise _Alarm()
    old = signal.signal(signal.SIGALRM, on_alarm)
    signal.alarm(seconds)
    try:
        return concrete(w)
    except _Alarm:
        return 'HANG: no result within %d s on %r' % (seconds, w)
    except Exception as e:     # noqa
        return 'EXCEPTION %s: %s' % (type(e).__name__, str(e)[:200])
    finally:
        signal.alarm(0)
        signal.signal(signal.SIGALRM, old)


def smt_result(obligations, discharged, fails, queries, solver_s, samples, item):
    """result record for direct SMT (E2/E3) items"""
    return {'paths': obligations, 'nontrivial': obligations, 'unknown': obligations - discharged
            - len(fails), 'exhausted': discharged + len(fails) == obligations,
            'smt_queries': queries, 'queries': 0, 'solver_s': solver_s, 'validated': 0,
            'samples': samples,
            'fails': [{'witness': f['witness'], 'msg': f['msg'],
                       'replay': {'h': item.get('h'), 'item': item, 'witness': f['witness']}}
                      for f in fails]}
