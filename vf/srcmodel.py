"""E1-off: the whole filter on a document P.S.Q with |P| = d and |Q| = e symbolic.

P is a comment line ('%' + 'x'*(d-2) + '\\n', d >= 2, or empty for d = 0), Q a trailing comment
('%' + 'x'*(e-1), or empty).  The real scanner runs on the concrete skeleton S and every token
position is re-based by +d; `Src` answers the three questions the filter asks about the source
text (len, count of newlines before an offset, rfind of a newline before an offset)
consistently with P.S.Q.  Diagnostics raised by the scanner itself (\\verb, verbatim) are
routed through the same model.  All of this is justified per skeleton by a concrete
precheck (scan(P0+S+Q0) == [comment] + shift(scan(S)) + [comment]) and on every path by
re-running the witness document natively through the unmodified filter (link step).
"""
from vf import yal
from vf.yal import utils

_CUR = [None]
_real_latex_error = utils.latex_error


class Src:
    def __init__(self, S, d, e):
        self.S = S
        self.d = d
        self.e = e

    def __len__(self):
        return self.d + len(self.S) + self.e

    def __bool__(self):
        return True

    def count(self, ch, a, b):
        assert ch == '\n' and a == 0
        k = b - self.d
        base = 1 if self.d > 0 else 0
        if k <= 0:
            return 0 if b < self.d else base
        return self.S.count(ch, 0, k) + base

    def rfind(self, ch, a, b):
        assert ch == '\n' and a == 0
        k = b - self.d
        r = self.S.rfind(ch, 0, k) if k > 0 else -1
        if r >= 0:
            return r + self.d
        if self.d > 0 and b >= self.d:
            return self.d - 1
        return -1


def _latex_error(err, pos, latex, parms):
    cur = _CUR[0]
    if cur is not None and latex is cur.S:
        toks = _real_latex_error(err, pos + cur.d, cur, parms)
        for t in toks:
            t.pos = t.pos - cur.d
        return toks
    return _real_latex_error(err, pos, latex, parms)


def hook(parms):
    real = parms.scanner.scan

    def scan(x):
        if isinstance(x, Src):
            _CUR[0] = x
            utils.latex_error = _latex_error
            try:
                toks = real(x.S)
            finally:
                utils.latex_error = _real_latex_error
                _CUR[0] = None
            for t in toks:
                t.pos = t.pos + x.d
            # the comment tokens of P and Q (their text never reaches the output; the
            # parser looks at their type and position only)
            if x.d > 0:
                toks.insert(0, yal.defs.CommentToken(0, '%\n'))
            if x.e > 0:
                toks.append(yal.defs.CommentToken(x.d + len(x.S), '%'))
            return toks
        return real(x)
    parms.scanner.scan = scan


def real_doc(S, d, e):
    P = '' if d == 0 else '%' + 'x' * (d - 2) + '\n'
    Q = '' if e == 0 else '%' + 'x' * (e - 1)
    return P + S + Q


def _sig(toks, shift=0):
    return [(type(t).__name__, t.pos + shift, t.txt, getattr(t, 'pos_fix', None)) for t in toks]


def rebase_ok(S, nosp=False):
    """concrete precheck: is the re-based scan of S what the real scanner produces on
    P.S and on S.Q ?  returns (prefix_ok, suffix_ok)"""
    parms = yal.parameters.Parameters('en')
    if nosp:
        parms.no_specials()
    sc = parms.scanner.scan
    import contextlib
    import io
    with contextlib.redirect_stderr(io.StringIO()):
        base = _sig(sc(S))
        try:
            pre = _sig(sc('%x\n' + S))
            pre_ok = (pre[1:] == _sig(sc(S), 3) and pre[0][0] == 'CommentToken'
                      and pre[0][2] == '%x\n')
        except Exception:
            pre_ok = False
        try:
            suf = _sig(sc(S + '%x'))
            suf_ok = (suf[:-1] == base and suf[-1][0] == 'CommentToken'
                      and suf[-1][2] == '%x')
        except Exception:
            suf_ok = False
    # scanner-level diagnostics look at the rest of the text: keep e = 0 for them
    if '\\verb' in S or '{verbatim}' in S:
        suf_ok = suf_ok and _verb_safe(S)
    return pre_ok, suf_ok


def _verb_safe(S):
    # a trailing comment Q changes an *unterminated* \verb / verbatim; terminated ones are
    # unaffected.  Decide by comparing the scans of S and S+'%x' (done by caller) -- here we
    # only refuse when S ends inside a scanner-level error.
    parms = yal.parameters.Parameters('en')
    import contextlib
    import io
    buf = io.StringIO()
    with contextlib.redirect_stderr(buf):
        parms.scanner.scan(S)
    return 'LaTeX error' not in buf.getvalue()
