"""Solver-based checking of YaLafi (see /verif/DESIGN.md)."""
