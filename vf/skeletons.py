"""Skeleton documents: the enumerated 'structure' dimension of the E1-off checks.
Each entry: name -> (source, options dict).  Inside a skeleton the solver decides the
symbolic dimensions (offsets d, e; thresholds); the family itself is a finite, stated bound.
"""
import random

P_ALL = {'pack': '*'}
P_BABEL = {'pack': 'babel'}

WELL = {
    'words': ('Alpha beta\ngamma.\n\nDelta', {}),
    'unknown_macro': ('A \\zzfoo{B C} D', {}),
    'unknown_noarg': ('A \\zzfoo B', {}),
    'unknown_env': ('A\n\\begin{zzenv}\nB C\n\\end{zzenv}\nD', {}),
    'textcolor': ('A \\textcolor{red}{B C} D', P_ALL),
    'framebox': ('A \\framebox[3cm][l]{B C} D', {}),
    'ltadd': ('A \\LTadd{B} C \\LTalter{q}{D} E \\LTskip{zz} F', {}),
    'label': ('A\\label{kx} B \\index{kz}C', {}),
    'vphantom': ('A\\vphantom{q}B \\phantom{q}C \\hphantom{\\label{x}}D', {}),
    'comment': ('A % cmt\n  B %%% q\n\nC', {}),
    'ltskip_region': ('A\n%%% LT-SKIP-BEGIN\nqq \\zz{x}\n%%% LT-SKIP-END\nB', {}),
    'tikz': ('A\n\\begin{tikzpicture}\n\\draw (0,0);\n\n\\end{tikzpicture}\nB', P_ALL),
    'lstlisting': ('A\\begin{lstlisting}[opts]xxx\\end{lstlisting}B', P_ALL),
    'section': ('\\section{Intro A}\nB C\n\\subsection*{More?}\nD', {}),
    'section_opt': ('\\chapter[short]{Long A}\nB', {}),
    'title': ('\\title{My T}\nA', {}),
    'itemize': ('A\n\\begin{itemize}\n\\item B\n\\item[x] C.\n\\item[y] D\n\\end{itemize}\nE', {}),
    'enumerate': ('A:\n\\begin{enumerate}\n\\item B\n\\begin{enumerate}\\item C\\item D'
                  '\\end{enumerate}\n\\item E\n\\end{enumerate}\nF', {}),
    'item_stray': ('A \\item B \\item[q] C', {}),
    'theorem': ('\\newtheorem{thm}{Theorem}\nA\n\\begin{thm}[Name]\nB\n\\end{thm}\n'
                '\\begin{thm}\nC\n\\end{thm}', {}),
    'proof': ('A\n\\begin{proof}\nB\n\\end{proof}\n\\begin{proof}[Test]\nC\n\\end{proof}\nD', P_ALL),
    'cite': ('A \\cite{k} B \\cite[p. 3]{k} C', {}),
    'cite_biblatex': ('A \\cite[See][p. 5]{k} B \\parencite*{k} C \\footcite{k} D',
                      {'pack': 'biblatex'}),
    'ref': ('A \\ref{kx} B \\eqref{ky} C \\pageref{kz} D', P_ALL),
    'footnote': ('A\\footnote{Foot B} C\\footnote{Foot D \\textbf{E}} F', {}),
    'caption': ('A\n\\begin{figure}\n\\includegraphics{f.png}\n\\caption[s]{Cap B}\n'
                '\\end{figure}\nC', P_ALL),
    'footnotetext': ('A\\footnotemark B\\footnotetext{Foot} C', {}),
    'verb': ('A \\verb|x y| B \\verb+\\z+ C', {}),
    'verbatim': ('A\n\\begin{verbatim}\nx $y\n\\end{verbatim}\nB', {}),
    'accents': ('A \\"a \\\'{e} \\^o \\c{c} na\\"ive \\v{S} \\"{} \\~ n B', {}),
    'specials': ('A -- B --- C `` D\'\' E~F \\, G \\% \\& \\$ \\# \\_ \\{ \\} H \\\\ I & J', {}),
    'specials2': ("A---- B''' C `' \\! D\\:E\\;F\\ G", {}),
    'inline_math': ('A $x+y$ B $z$, C \\(a\\). D $b.$ E', {}),
    'inline_math_space': ('A $\\, x$ B $y \\;$ C $x^{2}_{i}$ D $\\frac{a}{b}$ E', {}),
    'inline_many': ('$a$ $b$ $c$ $d$ $e$ $f$ $g$ $h$', {}),
    'display_simple': ('A\n\\[ x = y. \\]\nB', {}),
    'display_align': ('A\n\\begin{align}\na &= b \\\\\n&= c + d, \\label{q}\n\\end{align}\nB',
                      {'pack': 'amsmath'}),
    'display_text': ('A\n\\begin{equation}\nx = y \\quad\\text{for all } z.\n\\end{equation}\nB',
                     {'pack': 'amsmath'}),
    'display_dollar': ('A $$ x + y ; $$ B', {}),
    'eqnarray': ('\\begin{eqnarray}\na &=& b \\\\[2ex]\n  &<& c \\nonumber\n\\end{eqnarray}', {}),
    'display_mbox': ('\\[ x \\mbox{ if } y \\]', {}),
    'newcommand': ('\\newcommand{\\foo}[2]{X #1 Y #2 Z}\nA \\foo{B}{C} D \\foo E F G', {}),
    'newcommand_opt': ('\\newcommand{\\foo}[2][dd]{X #1 Y #2}\nA \\foo{B} C \\foo[q]{D} E', {}),
    'renewcommand': ('\\newcommand{\\x}{One}\\x{} \\renewcommand{\\x}{Two}\\x', {}),
    'def': ('\\def\\foo#1#2{[#2|#1]}A \\foo BC \\foo{D E}{F} G', {}),
    'macro_twice': ('\\newcommand{\\tw}[1]{#1 and #1}\nA \\tw{B C} D', {}),
    'macro_nested': ('\\newcommand{\\aa}[1]{<#1>}\\newcommand{\\bb}[1]{(\\aa{#1})}A \\bb{B \\aa{C}} D', {}),
    'use_before_def': ('A \\foo{B} \\newcommand{\\foo}[1]{X#1} \\foo{C}', {}),
    'babel_sel': ('\\usepackage[german,english]{babel}\nA B.\n\\selectlanguage{german}\nC D.',
                  P_BABEL),
    'babel_foreign': ('A \\foreignlanguage{german}{B C} D. E \\foreignlanguage{russian}'
                      '{F G H I J} K.', P_BABEL),
    'babel_env': ('A\n\\begin{otherlanguage}{german}\nB C\n\\end{otherlanguage}\nD\n'
                  '\\begin{otherlanguage*}{french}E\\end{otherlanguage*} F', P_BABEL),
    # short inclusions with leading / trailing white space (placeholder representation)
    'babel_incl_lead_ws': ('A b \\foreignlanguage{german}{\n  der Hund} c d. E \\foreignlanguage{german}'
                           '{  x} f \\foreignlanguage{german}{ \t y  } g.', P_BABEL),
    'babel_incl_only_ws': ('A b \\foreignlanguage{german}{   } c \\foreignlanguage{german}{\n} d.', P_BABEL),
    'babel_nested': ('A \\foreignlanguage{german}{B \\foreignlanguage{french}{C} D} E'
                     '\\footnote{F \\foreignlanguage{german}{G}}', P_BABEL),
    'german_short': ('\\usepackage[german]{babel}"a "o "s "` "\' "- "= A"B', P_BABEL),
    'glossaries': ('\\usepackage{glossaries}\\gls@defglossaryentry{ab}{name={AB},text={ab cd},'
                   'plural={abs},description={a desc}}\nA \\gls{ab} B \\Gls{ab} C \\GLSpl{ab} '
                   'D \\gls{ab} E \\glsdesc{ab}', {'pack': 'glossaries'}),
    'newacronym': ('\\newacronym{pp}{ppm}{parts per million} A', {'pack': 'glossaries'}),
    'linebreak': ('A\\\\B\\\\[1ex]C \\\\ [2ex] D\\newline E', {}),
    'par': ('A\\par B \\par\nC', {}),
    'tabular': ('\\begin{tabular}{l|c}\nA & B \\\\\nC & D\n\\end{tabular}', {}),
    'table_env': ('\\begin{table}[h]\\begin{tabular}{ll}A&B\\end{tabular}\\caption{Cap}'
                  '\\end{table}C', {}),
    'minipage': ('A\\begin{minipage}{0.5\\linewidth}B\\end{minipage}C', {}),
    'hspace': ('A\\hspace{1em}B\\hspace*{0pt}C\\vspace{1ex}D', {}),
    'group': ('A {B {C} D} E {\\bf F} G', {}),
    'nested_deep': ('A \\textbf{B \\emph{C \\footnote{D \\zz{E}} F} G} H', {}),
    'cleveref': ('\\usepackage{cleveref} A \\cref{q} B \\Cref{q,r} C', {'pack': 'cleveref'}),
    'xspace': ('\\def\\x{X\\xspace}A \\x B \\x. C', {'pack': 'xspace'}),
    'hyperref': ('A \\href{u}{B C} D \\url{x_y} E \\texorpdfstring{F}{q} G', {'pack': 'hyperref'}),
    'documentclass': ('\\documentclass[12pt]{article}\n\\usepackage{amsmath,xcolor}\n'
                      '\\begin{document}\nA \\textcolor{red}{B}\n\\end{document}', {}),
    'usepackage_babel': ('\\documentclass[ngerman]{scrartcl}\\usepackage{babel}A "a B',
                         {'dcls': 'scrartcl'}),
    'ltinput_missing': ('A \\LTinput{/nonexistent/q.tex} B', {}),
    'ltinput_file': ('A \\LTinput{/verif/vf/data/defs_with_text.tex} B \\fromfile{} C', {}),
    'default_ws_end': ('\\newcommand{\\foo}[2][d  \n   d]{X#1Y#2}\nA \\foo{B}', {}),
    'default_verb_end': ('\\newcommand{\\see}[1][file \\verb|appendix.tex|]{(see #1)}\nA \\see.', {}),
    'body_verb_end': ('\\newcommand{\\code}{\\verb|some long code|}A \\code', {}),
    'body_ws_end': ('\\newcommand{\\foo}[1]{X   \n   Y#1}\nA \\foo B', {}),
    'body_special_end': ('\\newcommand{\\foo}{a---b``c\\,d~e\\%}A \\foo', {}),
    'body_math_end': ('\\newcommand{\\foo}{$x+y$ and \\[ a = b. \\]}A \\foo', {}),
    'body_item_end': ('\\newcommand{\\foo}{\\begin{itemize}\\item A\\end{itemize}}\\foo', {}),
    'theorem_end': ('\\newtheorem{thm}{Theorem}\\begin{thm}', {}),
    'proof_end': ('A\\begin{proof}', {'pack': 'amsthm'}),
    'gls_end': ('\\gls@defglossaryentry{ab}{name={AB},text={some long text}}\\gls{ab}', {'pack': 'glossaries'}),
    'cref_end': ('\\usepackage{cleveref}\\cref{q}', {'pack': 'cleveref'}),
    # poor-man replacements with multi-character tokens (blank runs, --, \\,)
    'cref_sed': ('\\usepackage[poorman]{cleveref}\\YYCleverefInput{/verif/vf/data/c.sed}'
                 'A \\cref{x} B \\crefrange{a}{b} C', {}),
    'cref_sed_end': ('\\usepackage[poorman]{cleveref}\\YYCleverefInput{/verif/vf/data/c.sed}'
                     'A \\cref{x}', {}),
    'crefrange_sed_end': ('\\usepackage[poorman]{cleveref}\\YYCleverefInput{/verif/vf/data/c.sed}'
                          'A \\crefrange{a}{b}', {}),
    'cite_end': ('\\cite{k}', {}),
    'ref_end': ('\\ref{k}', {}),
    'heading_end': ('\\section{A}', {}),
    'heading_bare_end': ('A\n\\section x', {}),
    'heading_macro_end': ('\\title\\LaTeX', {}),
    'heading_bare_mid': ('A\n\\subsection y B', {}),
    'item_end': ('\\begin{enumerate}\\item', {}),
    'phrase_end': ('A \\zzfoo{B C} D', {}),
    'body_blank_lines_removed': ('\\newcommand{\\p}{          \n\n}x\n{}\\p', {}),
    'body_blank_lines_removed2': ('\\newcommand{\\x}{A\n{}    \n  B}U \\x V', {}),
    'verbatim_in_body': ('\\newcommand{\\vb}{\\begin{verbatim}abcdefghijklmnopqrstuvw\\end{verbatim}}A \\vb', {}),
    'verbatim_in_default': ('\\newcommand{\\vb}[1][\\begin{verbatim}abcdefghijklmn\\end{verbatim}]{#1}A \\vb', {}),
    'acronym_sharp_s': ('\\usepackage{glossaries}\\newacronym{a}{b}ß', {'pack': 'glossaries'}),
    'missing_arg_par': ('\\newcommand{\\x}[1]{#1 suffix text}U \\x\n\nN', {}),
    'pure_action_lines': ('A\n\\label{q}\n\\index{q}\n\nB\n  \\zz\n\n\n\\zz\n\nC', {}),
    'removed_line_then_text': ('A\n\\newcommand{\\q}{}\nB \\q\n C', {}),
    'paragraph_tokens': ('A\n\n\n\\label{q}\n\n B', {}),
    'unicode': ('Größe \u00e9t\u00e9 \u0416\u0443\u043a \u4e2d\u6587 \u202f \u00a0 A', {}),
    'long_lines': ('A ' * 30 + '\n' + 'B' * 50, {}),
    'bibitem': ('\\begin{thebibliography}{9}\\bibitem{k} A B\\end{thebibliography}', {}),
    'unicode_math': ('A $x ∈ M$ B', {'pack': 'unicode_math'}),
    'amsmath_ops': ('\\[a &= \\sum_{\\substack{a \\\\ \\text{test} \\\\ b}} 1\\]', {'pack': 'amsmath'}),
}

# documents with exactly one injected fault (C08) -- name -> (source, opts)
FAULTY = {
    'open_dollar': ('A $x B', {}),
    'open_dollar_para': ('A $x\n\nB C', {}),
    'open_paren_math': ('A \\(x B', {}),
    'open_display': ('A \\[ x', {}),
    'open_dd': ('A $$ x + y\n\nB', {}),
    'open_equation': ('A\n\\begin{equation}\nx = y\n\nB', {}),
    'open_arg': ('A \\textbf{B C', P_ALL),
    'open_arg_footnote': ('A \\footnote{B C', {}),
    'open_opt': ('A \\section[B C', {}),
    'open_arg_usermacro': ('\\newcommand{\\foo}[1]{<#1>}A \\foo{B C', {}),
    'verb_eot': ('A \\verb', {}),
    'verb_open': ('A \\verb|xy', {}),
    'verb_newline': ('A \\verb|x\ny| B', {}),
    'verbatim_open': ('A\n\\begin{verbatim}\nxx', {}),
    'skip_open': ('A\n%%% LT-SKIP-BEGIN\nB C', {}),
    'accent_nonletter': ('A \\"1 B', {}),
    'accent_nochar': ('A \\v{\u0416} B', {}),
    'ltinput_missing': ('A \\LTinput{/nonexistent/q.tex} B', {}),
    'gls_unknown': ('A \\gls{nolabel} B', {'pack': 'glossaries'}),
    'def_noname': ('A \\def', {}),
    'def_nobody': ('A \\def\\foo#1', {}),
    'def_badname': ('A \\def x{y} B', {}),
    'newcommand_badarg': ('\\newcommand{\\foo}[1]{#2} A', {}),
    'newcommand_baddefault': ('\\newcommand{\\foo}[0][x]{y} A', {}),
}

OPTION_SETS = [
    {},
    {'lang': 'de', 'pack': '*'},
    {'lang': 'ru', 'pack': '*', 'dcls': 'article'},
    {'lang': 'en', 'seqs': True, 'pack': '*'},
    {'nosp': True, 'pack': '*', 'dcls': 'scrartcl'},
    {'extr': 'footnote,section', 'pack': '*'},
    {'defs': '\\newcommand{\\zzfoo}[1]{<#1>}\\usepackage{babel}', 'pack': ''},
    {'repl': ['D & Long replacement text', 'B C & Q', '# c', 'A & Another longer one', 'F & '],
     'pack': '*'},
    {'lang': 'xx', 'pack': '*,cleveref'},
    {'unkn': True, 'pack': '*'},
    {'defs': '\\newcommand{\\zzfoo}[1]{<#1>} Text \\footnote{Footnote text in defs} \\caption{Cap}'
             '\\usepackage{xcolor}', 'pack': ''},
]


def scan_tokens(S):
    from vf import yal
    import contextlib
    import io
    parms = yal.parameters.Parameters('en')
    with contextlib.redirect_stderr(io.StringIO()):
        return parms.scanner.scan(S)


def truncations(S):
    """all prefixes of S ending at a token boundary (and in the middle of long tokens)"""
    toks = scan_tokens(S)
    out = []
    # token starts are reliable for non-generated tokens
    starts = sorted(set(t.pos for t in toks if 0 < t.pos < len(S)))
    for p in starts:
        out.append(S[:p])
    return out


def deletions(S):
    """S with one token removed"""
    toks = scan_tokens(S)
    out = []
    starts = sorted(set(t.pos for t in toks if 0 <= t.pos < len(S))) + [len(S)]
    for a, b in zip(starts, starts[1:]):
        out.append(S[:a] + S[b:])
    return out


def malformed(seed, per_doc, which='both'):
    rnd = random.Random(seed)
    out = []
    for name, (S, o) in WELL.items():
        cand = []
        if which in ('both', 'trunc'):
            cand += [('trunc', x) for x in truncations(S)]
        if which in ('both', 'del'):
            cand += [('del', x) for x in deletions(S)]
        rnd.shuffle(cand)
        seen = set()
        for kind, x in cand:
            if x in seen or not x:
                continue
            seen.add(x)
            out.append((name + '/' + kind + str(len(seen)), x, o))
            if len(seen) >= per_doc:
                break
    return out
