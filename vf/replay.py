"""Native re-check of a witness on the code in /repo (run with /venv/bin/python, no CrossHair).
usage: python -m vf.replay <PID> '<json replay record>'
exit 1 + 'REPRODUCED ...' if the violation shows on the real code, 0 otherwise."""
import json
import sys

from vf import core


def main():
    pid = sys.argv[1]
    rep = json.loads(sys.argv[2])
    mod = core.load(pid)
    msg = mod.replay(rep)
    if msg is None or msg is True:
        print('not reproduced')
        return 0
    print('REPRODUCED ' + str(msg).replace('\n', '\\n')[:1500])
    return 1


if __name__ == '__main__':
    sys.exit(main())
