"""Document algebra: LaTeX documents built from nodes that know, from the property texts and
the README only (not from YaLafi's code), what they contribute to the plain text.

A node N has
  src   its LaTeX source
  ev    the events it contributes to its text flow, in OUTPUT order:
          ('C', o)            copy of the non-blank source character at offset o
          ('G', a, b, rx)     generated non-blank text matching regex rx (may be empty if rx
                              allows), every character mapped into the source span [a, b)
          ('S', o, txt)       replaced special sequence starting at offset o: the non-blank
                              characters of txt, all mapped to o
          ('E', a, b)         error mark (C08): ' LATEXXXERROR ', first character mapped to a,
                              the others inside [a, b]
  det   detached flows (footnotes, captions): list of event lists, in order of appearance
  spans source spans of constructs that may generate white space
  sws   offset -> blank text for special sequences that become white space
  unk   unknown macro / environment names used in text mode, in order (C19)
  hid   spans of hidden source text (must never show)
  lang  list of (offset, language code) switches for multi-language checks (C12)
All offsets are relative to the node and shifted on composition.
"""
import re

class N:
    def __init__(self, src='', ev=(), det=(), spans=(), sws=None, unk=(), hid=(), mono=True,
                 diag=()):
        self.src = src
        self.ev = list(ev)
        self.det = [list(f) for f in det]
        self.spans = list(spans)
        self.sws = dict(sws or {})
        self.unk = list(unk)
        self.hid = list(hid)
        self.mono = mono          # main-flow positions are non-decreasing
        self.diag = list(diag)    # offsets at which a diagnostic is expected (C08)

    def __len__(self):
        return len(self.src)


def _sh_ev(e, k):
    t = e[0]
    if t == 'C':
        return ('C', e[1] + k)
    if t == 'G':
        return ('G', e[1] + k, e[2] + k, e[3])
    if t == 'S':
        return ('S', e[1] + k, e[2])
    if t == 'E':
        return ('E', e[1] + k, e[2] + k)
    raise ValueError(e)


def shift(n, k):
    return N(n.src, [_sh_ev(e, k) for e in n.ev],
             [[_sh_ev(e, k) for e in f] for f in n.det],
             [(a + k, b + k) for a, b in n.spans], {o + k: t for o, t in n.sws.items()},
             n.unk, [(a + k, b + k) for a, b in n.hid], n.mono, [o + k for o in n.diag])


def cat(*ns):
    """concatenation in source order = output order"""
    out = N()
    for n in ns:
        if isinstance(n, str):
            n = raw(n)
        s = shift(n, len(out.src))
        out.src += s.src
        out.ev += s.ev
        out.det += s.det
        out.spans += s.spans
        out.sws.update(s.sws)
        for u in s.unk:
            if u not in out.unk:
                out.unk.append(u)
        out.hid += s.hid
        out.mono = out.mono and s.mono
        out.diag += s.diag
    return out


def place(src, parts, ev_order=None, hidden_parts=(), span=True, gen=None, unk=(), mono=True,
          det_first=False):
    """generic constructor.  src is a format string with {0},{1}.. for the child nodes
    `parts`; ev_order lists what is output, in order: an int (events of that child), or a
    regex string (generated text mapped into the span of the whole construct).  Children in
    hidden_parts contribute nothing (their source is hidden text)."""
    # positions of children in the source
    pieces = re.split(r'(\{\d+\})', src)
    text = ''
    at = {}
    for p in pieces:
        m = re.fullmatch(r'\{(\d+)\}', p)
        if m:
            i = int(m.group(1))
            at[i] = len(text)
            text += parts[i].src
        else:
            text += p.replace('{{', '{').replace('}}', '}')
    out = N(text, mono=mono)
    whole = (0, len(text))
    if span:
        out.spans.append(whole)
    if ev_order is None:
        ev_order = [i for i in range(len(parts)) if i not in hidden_parts]
    last_at = -1
    for x in ev_order:
        if isinstance(x, int):
            s = shift(parts[x], at[x])
            out.ev += s.ev
            if at[x] < last_at:
                out.mono = False
            last_at = at[x]
        else:
            out.ev.append(('G', 0, len(text), x))
    for i in sorted(at, key=lambda j: at[j]):
        s = shift(parts[i], at[i])
        if i in hidden_parts:
            out.hid.append((at[i], at[i] + len(parts[i].src)))
            continue
        out.det += s.det
        out.spans += s.spans
        out.sws.update(s.sws)
        for u in s.unk:
            if u not in out.unk:
                out.unk.append(u)
        out.hid += s.hid
        out.mono = out.mono and s.mono
        out.diag += s.diag
    for u in unk:
        if u not in out.unk:
            out.unk.insert(0, u)
    return out


# ------------------------------------------------------------------ leaves

def T(s):
    """visible literal text (blanks allowed)"""
    return N(s, [('C', i) for i, c in enumerate(s) if not c.isspace()])


def raw(s):
    """layout: blanks / line breaks only (or the hole marker of a sketch)"""
    return N(s)


def H(s):
    """hidden literal (label, key, file name, comment text ...)"""
    return N(s, hid=[(0, len(s))])


def esc(s):
    return re.escape(s)


def G(src, rx, unk=()):
    """a construct without children that generates text matching rx"""
    return N(src, [('G', 0, len(src), rx)] if rx is not None else [], spans=[(0, len(src))],
             unk=unk)


# ------------------------------------------------------------------ vanishing constructs

def comment(txt='cmt'):
    """% comment up to and including the line end (hidden)"""
    s = '%' + txt + '\n'
    return N(s, hid=[(1, 1 + len(txt))], spans=[])


def label(key='kx'):
    return place('\\label{{{0}}}', [H(key)], hidden_parts=(0,))


def index(key='kz'):
    return place('\\index{{{0}}}', [H(key)], hidden_parts=(0,))


def ltskip(n):
    return place('\\LTskip{{{0}}}', [n], hidden_parts=(0,))


def vphantom(n):
    return place('\\vphantom{{{0}}}', [n], hidden_parts=(0,))


def skip_region(inner='qq \\zz{x} $'):
    s = '%%% LT-SKIP-BEGIN\n' + inner + '\n%%% LT-SKIP-END\n'
    return N(s, hid=[(0, len(s))])


def removed_env(name='tikzpicture', inner='\\draw (0,0) -- (1,1);'):
    s = '\\begin{' + name + '}' + inner + '\\end{' + name + '}'
    # an undeclared macro inside a removed environment is still "used outside maths" (C19)
    import re as _re
    unk = []
    for m in _re.findall(r'\\[A-Za-z]+', inner):
        if m not in unk:
            unk.append(m)
    return N(s, hid=[(len(name) + 8, len(name) + 8 + len(inner))], spans=[(0, len(s))], unk=unk)


def unknown(name, *args, star='', gap=''):
    """\\name{arg}.. : the macro vanishes, braced arguments stay"""
    fmt = '\\' + name + star + ''.join(gap + '{{{%d}}}' % i for i in range(len(args)))
    return place(fmt, list(args), unk=['\\' + name])


def unknown_env(name, body):
    return place('\\begin{{' + name + '}}{0}\\end{{' + name + '}}', [body], unk=[name])


def group(n):
    return place('{{{0}}}', [n], span=False)


# ------------------------------------------------------------------ pass-through

def passthru(name, n, pre='', gap=''):
    """declared macro whose last argument is text: \\textcolor{red}{..}, \\framebox[..]{..}"""
    return place('\\' + name + pre.replace('{', '{{').replace('}', '}}') + gap + '{{{0}}}', [n])


def ltadd(n):
    return passthru('LTadd', n)


def ltalter(hidden, shown):
    return place('\\LTalter{{{0}}}{{{1}}}', [hidden, shown], hidden_parts=(0,))


def href(url, n):
    return place('\\href{{{0}}}{{{1}}}', [H(url), n], hidden_parts=(0,))


# ------------------------------------------------------------------ generators

def ref(key='kx', name='ref'):
    return place('\\' + name + '{{{0}}}', [H(key)], ev_order=['0' if name != 'eqref' else
                                                              r'\(0\)'], hidden_parts=(0,))


def cite(key='kq', opt=None):
    if opt is None:
        return place('\\cite{{{0}}}', [H(key)], ev_order=[r'\[0\]'], hidden_parts=(0,))
    return place('\\cite[{1}]{{{0}}}', [H(key), opt], ev_order=[r'\[0,', 1, r'\]'],
                 hidden_parts=(0,))


def heading(n, name='section', star='', short=None, punct=False, gap=''):
    """heading: argument copied, full stop added unless it ends with ! or ?"""
    fmt = '\\' + name + star + gap + ('[{1}]' + gap if short is not None else '') + '{{{0}}}'
    parts = [n] + ([short] if short is not None else [])
    order = [0] + ([] if punct else [r'\.'])
    return place(fmt, parts, ev_order=order, hidden_parts=(1,) if short is not None else ())


def footnote(n, name='footnote', opt=None):
    """detached flow"""
    fmt = '\\' + name + ('[' + opt + ']' if opt else '') + '{{{0}}}'
    inner = place(fmt, [n])
    out = N(inner.src, [], [inner.ev] + inner.det, inner.spans, inner.sws, inner.unk, inner.hid,
            inner.mono)
    out.diag = inner.diag
    return out


def item(lab=None, rx=None):
    """\\item or \\item[lab]: own construct span; an automatic label (rx) or the given label,
    possibly followed by the punctuation mark that ended the preceding text"""
    if lab is None:
        return N('\\item', [('G', 0, 5, rx)] if rx else [], spans=[(0, 5)])
    return place('\\item[{0}]', [lab], ev_order=[0, r'[.:,;!?]?'])


def item_env(env, items, labels=None):
    """itemize / enumerate: items is a list of (label_node_or_None, body_node)"""
    parts = []
    fmt = '\\begin{{' + env + '}}'
    for i, (lab, body) in enumerate(items):
        if lab is None:
            # first level 1. 2. .., nested levels a. b. ..
            rx = ('(?:%d|%s)' % (i + 1, chr(ord('a') + i)) + r'\.') if env == 'enumerate' else None
            parts.append(item(None, rx))
        else:
            parts.append(item(lab))
        fmt += '{%d} {%d}' % (len(parts) - 1, len(parts))
        parts.append(body)
    fmt += '\\end{{' + env + '}}'
    return place(fmt, parts)


def newtheorem(env='thm', title='Theorem', star=''):
    # star='*': the unnumbered form of amsthm
    src = '\\newtheorem' + star + '{' + env + '}{' + title + '}'
    return N(src, hid=[], spans=[(0, len(src))])


def theorem(body, env='thm', title='Theorem', opt=None):
    if opt is None:
        return place('\\begin{{' + env + '}}{0}\\end{{' + env + '}}', [body],
                     ev_order=[esc(title) + r'\.', 0])
    return place('\\begin{{' + env + '}}[{1}]{0}\\end{{' + env + '}}', [body, opt],
                 ev_order=[esc(title) + r'\(', 1, r'\)\.', 0])


def proof(body, opt=None, word=None):
    word = word or PROOFNAME.get('en', 'Proof')
    if opt is None:
        return place('\\begin{{proof}}{0}\\end{{proof}}', [body], ev_order=[esc(word) + r'\.', 0])
    return place('\\begin{{proof}}[{1}]{0}\\end{{proof}}', [body, opt], ev_order=[1, r'\.', 0])


def verb(txt, delim='|'):
    s = '\\verb' + delim + txt + delim
    return N(s, [('C', 6 + i) for i, c in enumerate(txt) if not c.isspace()], spans=[(0, len(s))])


def verbatim(txt, gap=''):
    pre = '\\begin' + gap + '{verbatim}'
    s = pre + txt + '\\end{verbatim}'
    return N(s, [('C', len(pre) + i) for i, c in enumerate(txt) if not c.isspace()],
             spans=[(0, len(s))])


SPECIALS = {'--': '–', '---': '—', '``': '“', "''": '”', '~': ' ',
            '\\,': ' ', '\\%': '%', '\\&': '&', '\\$': '$', '\\#': '#', '\\_': '_',
            '\\{': '{', '\\}': '}', '\\\\': ' ', '&': ' ', '\\ ': ' ', '\\:': ' ', '\\;': ' ',
            '\\!': ''}


def special(seq):
    txt = SPECIALS[seq]
    if txt.strip():
        return N(seq, [('S', 0, txt)])
    return N(seq, sws={0: txt}, spans=[(0, len(seq))])


ACCENTS = {('\\"', 'a'): 'ä', ("\\'", 'e'): 'é', ('\\^', 'o'): 'ô',
           ('\\c', 'c'): 'ç', ('\\v', 'S'): 'Š', ('\\~', 'n'): 'ñ',
           ('\\`', 'A'): 'À', ('\\H', 'o'): 'ő'}


def accent(mac, ch, braced=False):
    s = mac + ('{' + ch + '}' if braced else (' ' if mac[1].isalpha() else '') + ch)
    return N(s, [('S', 0, ACCENTS[(mac, ch)])], spans=[(0, len(s))])


# ------------------------------------------------------------------ glossaries

GLSDEF = ('\\gls@defglossaryentry{ab}{name={AB},text={alpha beta},plural={alphas},'
          'description={a desc}}')


def glsdefs():
    """one line of a .glsdefs data base: leaves no text"""
    return N(GLSDEF, spans=[(0, len(GLSDEF))])


def gls(name='gls', text='alpha beta'):
    return place('\\' + name + '{{{0}}}', [H('ab')], ev_order=[esc(''.join(text.split()))],
                 hidden_parts=(0,))


# ------------------------------------------------------------------ maths

def _load_collections():
    """placeholder collections, operator words, proof names and the error mark are configuration
    of YaLafi: they are read from the real parameters.py of the tree under test"""
    inline, display, langch, opw, proof = {}, {}, {}, {}, {}
    mark = 'LATEXXXERROR'
    try:
        from vf import yal
        for lang in ('en', 'de', 'ru'):
            p = yal.parameters.Parameters(lang)
            lc = p.lang_context
            inline[lang] = list(lc.math_repl_inline)
            display[lang] = list(lc.math_repl_display)
            langch[lang] = list(lc.lang_change_repl)
            opw[lang] = dict(lc.math_op_text)
            proof[lang] = lc.proof_name
            mark = p.mark_latex_error
    except Exception:          # noqa: documented fall-back (values of the pinned tree)
        inline = {'en': ['B-B-B', 'C-C-C', 'D-D-D', 'E-E-E', 'F-F-F', 'G-G-G']}
        inline['de'] = list(inline['en'])
        inline['ru'] = ['Б-Б-Б', 'В-В-В', 'Г-Г-Г', 'Д-Д-Д', 'Е-Е-Е', 'Ж-Ж-Ж']
        display = {'en': ['U-U-U', 'V-V-V', 'W-W-W', 'X-X-X', 'Y-Y-Y', 'Z-Z-Z']}
        display['de'] = list(display['en'])
        display['ru'] = ['Ц-Ц-Ц', 'Ч-Ч-Ч', 'Ш-Ш-Ш', 'Ы-Ы-Ы', 'Э-Э-Э', 'Ю-Ю-Ю']
        langch = {'en': ['K-K-K', 'L-L-L', 'M-M-M', 'N-N-N']}
        langch['de'] = list(langch['en'])
        langch['ru'] = ['К-К-К', 'Л-Л-Л', 'М-М-М', 'Н-Н-Н']
    return inline, display, langch, opw, proof, mark


INLINE, DISPLAY, LANGCH, OPTEXT, PROOFNAME, MARK = _load_collections()


def alt(words):
    return '(?:' + '|'.join(esc(w) for w in words) + ')'


def inline_math(body, lang='en', delims=('$', '$'), nth=None):
    """$body$ -> one placeholder (+ final punctuation).  nth: index of this formula in its
    language (0-based) if the exact placeholder is to be demanded"""
    s = delims[0] + body + delims[1]
    coll = INLINE[lang]
    ph = esc(coll[(nth + 1) % len(coll)]) if nth is not None else alt(coll)
    core = body.strip()
    while True:
        for sp in ('\\,', '\\;', '\\:', '\\ ', '~', '\\quad', '\\!'):
            if core.endswith(sp):
                core = core[:-len(sp)].rstrip()
                break
        else:
            break
    last = core[-1:]
    punct = esc(last) if last in '.,;:' else ''
    n = N(s, [('G', 0, len(s), ph + punct)], spans=[(0, len(s))])
    n.hid = [(len(delims[0]), len(delims[0]) + len(body))]
    n.math_hidden = True
    return n


# ------------------------------------------------------------------ user macros (C09)

class Defn:
    """\\newcommand{\\name}[n][default]{body}; body is a list of str pieces and int
    parameter numbers; the reference semantics is TeX substitution"""
    def __init__(self, name, nargs, body, default=None, how='newcommand'):
        self.name, self.nargs, self.body, self.default, self.how = name, nargs, body, default, how

    def body_src(self):
        out = ''
        for p in self.body:
            if isinstance(p, int):
                out += '#%d' % p
            elif isinstance(p, (list, tuple)):        # ('foot', 'text'): \\footnote{text}
                out += '\\footnote{' + p[1] + '}'
            else:
                out += p
        return out

    def node(self):
        if self.how == 'def':
            s = '\\def\\' + self.name + ''.join('#%d' % (i + 1) for i in range(self.nargs)) \
                + '{' + self.body_src() + '}'
        else:
            s = '\\' + self.how + '{\\' + self.name + '}'
            if self.nargs:
                s += '[%d]' % self.nargs
            if self.default is not None:
                s += '[' + self.default + ']'
            s += '{' + self.body_src() + '}'
        return N(s, spans=[(0, len(s))])          # definition lines leave no text

    def call(self, *args, opt=None, bare=()):
        """\\name[opt]{arg}..; `bare` = indices of args given as a single unbraced token"""
        parts = list(args)
        fmt = '\\' + self.name
        k = 0
        nopt = 1 if self.default is not None else 0
        if nopt:
            if opt is not None:
                fmt += '[{%d}]' % len(parts)
                optidx = len(parts)
                parts.append(opt)
            else:
                optidx = None
        for i in range(len(args)):
            fmt += (' {%d}' % i) if i in bare else ('{{{%d}}}' % i)
        order = []
        mono = True
        uses = {}
        foots = []
        for p in self.body:
            if isinstance(p, (list, tuple)):
                foots.append(p[1])
                continue
            if isinstance(p, int):
                uses[p] = uses.get(p, 0) + 1
                if nopt and p == 1:
                    if optidx is not None:
                        order.append(optidx)
                    elif self.default.strip():
                        order.append(esc(''.join(self.default.split())))
                else:
                    order.append(p - 1 - nopt)
            elif ''.join(p.split()):
                order.append(esc(''.join(p.split())))
        node = place(fmt, parts, ev_order=order, mono=False)
        # detached text: a footnote in the body is generated once per call (mapped into the
        # call); a footnote inside an argument appears as often as the argument is used
        extra = []
        for i, a in enumerate(args):
            k = uses.get(i + 1 + nopt, 0)
            if k == 0:
                n_det = len(a.det)
                if n_det:
                    # argument not used: its detached flows do not exist
                    for f in a.det:
                        ff = [_sh_ev(e, node.src.index(a.src)) for e in f]
                        if ff in node.det:
                            node.det.remove(ff)
            for _ in range(max(0, k - 1)):
                off = node.src.index(a.src)
                extra += [[_sh_ev(e, off) for e in f] for f in a.det]
        node.det += extra
        for t in foots:
            node.det.append([('G', 0, len(node.src), esc(''.join(t.split())))])
        return node


# ------------------------------------------------------------------ faults (C08)

def fault(src_before_mark, mark_at, keep=None):
    """a faulty construct: its source, the offset the mark must be pinned to, and the node
    for text that must survive (events after the mark)"""
    raise NotImplementedError


def doc(*ns):
    return cat(*ns)
