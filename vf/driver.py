"""E1: path-exhaustive symbolic execution of real YaLafi functions (CrossHair + z3).

Own loop around CrossHair's StateSpace (a variant of crosshair.core.explore_paths) so that
we can *measure*: completed paths, paths abandoned as UNKNOWN (solver timeout, unsupported
operation), whether the decision tree was exhausted, number of z3 queries and solver time,
and a read-only model witness for every path.

Runs only under python3-vt (CrossHair + z3).  The harness functions themselves are plain
Python and are also called natively (replay, per-path validation).
"""
import inspect
import sys
import time
from time import process_time

import z3
from crosshair import statespace as _ss
from crosshair.condition_parser import condition_parser
from crosshair.copyext import CopyMode, deepcopyext
from crosshair.core import ExceptionFilter, Patched, gen_args
from crosshair.core_and_libs import NoTracing, ResumedTracing  # noqa: F401 (loads libimpl)
from crosshair.libimpl.builtinslib import LazyIntSymbolicStr, SymbolicBool, SymbolicInt
from crosshair.options import DEFAULT_OPTIONS, AnalysisOptionSet
from crosshair.statespace import (CallAnalysis, RootNode, StateSpace, StateSpaceContext,
                                  VerificationStatus, context_statespace)
from crosshair.tracers import COMPOSITE_TRACER
from crosshair.util import IgnoreAttempt, NotDeterministic, UnexploredPath

OK = True          # harness verdict: property holds on this path


class Skip:
    """harness verdict: precondition not met on this path (trivial path)"""
    def __repr__(self):
        return 'SKIP'


SKIP = Skip()


class Fail:
    """harness verdict: violated; optional witness override (e.g. a solver counter-model)"""
    def __init__(self, msg, witness=None):
        self.msg = msg
        self.witness = witness


EXTRA = {'validated': 0}
FRESH = []


def fresh_int(name):
    """a new symbolic int created inside a harness; its model value is added to the
    witness of the path under `name`"""
    space = context_statespace()
    with NoTracing():
        v = SymbolicInt(name + space.uniq(), int)
    FRESH.append((name, v))
    return v


def fresh_str(name):
    space = context_statespace()
    with NoTracing():
        v = LazyIntSymbolicStr(name + space.uniq(), str)
    FRESH.append((name, v))
    return v

# ---------------------------------------------------------------- solver accounting

SOLVER = {'queries': 0, 'time': 0.0, 'unknown': 0}
_orig_is_sat = _ss.solver_is_sat


def _counting_is_sat(solver, *exprs):
    t = time.time()
    try:
        return _orig_is_sat(solver, *exprs)
    finally:
        SOLVER['queries'] += 1
        SOLVER['time'] += time.time() - t


_ss.solver_is_sat = _counting_is_sat
_orig_check = z3.Solver.check


def _counting_check(self, *a):
    t = time.time()
    r = _orig_check(self, *a)
    SOLVER['time_all'] = SOLVER.get('time_all', 0.0) + time.time() - t
    SOLVER['checks_all'] = SOLVER.get('checks_all', 0) + 1
    if str(r) == 'unknown':
        SOLVER['unknown'] += 1
    return r


z3.Solver.check = _counting_check

# ---------------------------------------------------------------- read-only witnesses


def _model():
    space = context_statespace()
    r = _orig_check(space.solver)
    if str(r) != 'sat':
        raise UnexploredPath('model unavailable: ' + str(r))
    return space.solver.model()


def peek(v, model=None):
    """value of a (possibly symbolic) int/str/bool/list/tuple under one model of the
    current path condition, WITHOUT adding decisions to the path tree"""
    with NoTracing():
        return _peek(v, model)


def _peek(v, model):
    t = type(v)
    if t in (int, str, bool, float, type(None)):
        return v
    if model is None:
        model = _model()

    def ev(x):
        if type(x) is int:
            return x
        if hasattr(x, 'var'):
            r = model.eval(x.var, model_completion=True)
            if z3.is_bool(r):
                return z3.is_true(r)
            return r.as_long()
        raise TypeError('peek: ' + repr(type(x)))
    if isinstance(v, (SymbolicInt, SymbolicBool)):
        return ev(v)
    if isinstance(v, LazyIntSymbolicStr):
        cps = v._codepoints
        if type(cps) is list:
            return ''.join(chr(ev(c)) for c in list.__iter__(cps))
        n = _peek(cps.__len__(), model)
        return ''.join(chr(_peek(cps[i], model)) for i in range(n))
    if t in (list, tuple):
        return t(_peek(x, model) for x in t.__iter__(v))
    if t is dict:
        return {k: _peek(x, model) for k, x in dict.items(v)}
    # other symbolic sequence / string kinds
    if hasattr(v, '__len__') and hasattr(v, '__getitem__'):
        n = _peek(v.__len__(), model)
        items = [_peek(v[i], model) for i in range(n)]
        if isinstance(v, str):
            return ''.join(items)
        return items
    if hasattr(v, 'var'):
        return ev(v)
    raise TypeError('peek: unsupported ' + repr(t))


def z3var(v):
    """z3 term of a symbolic int (or an IntVal for a concrete one)"""
    if type(v) is int:
        return z3.IntVal(v)
    return v.var


def must_hold(cond_expr):
    """validity query on the current path condition: is cond_expr true in every model?
    (does not fork, does not add to the path condition)"""
    space = context_statespace()
    with NoTracing():
        t = time.time()
        r = _orig_check(space.solver, z3.Not(cond_expr))
        SOLVER['queries'] += 1
        SOLVER['time'] += time.time() - t
        if str(r) == 'unknown':
            raise UnexploredPath('validity query unknown')
        return str(r) == 'unsat'


def counter_witness(cond_expr):
    """model values of the arguments / fresh symbols for which cond_expr is FALSE on the
    current path (None if cond_expr is valid)"""
    space = context_statespace()
    with NoTracing():
        r = _orig_check(space.solver, z3.Not(cond_expr))
        SOLVER['queries'] += 1
        if str(r) != 'sat':
            return None
        m = space.solver.model()
        return {k: _peek(v, m) for k, v in FRESH}


# ---------------------------------------------------------------- exploration

def _gen_args(sig, space):
    """purely symbolic arguments.  (crosshair.core.gen_args goes through
    make_concrete_or_symbolic, which -- depending on the statistics of earlier paths -- forks
    into 'prematurely realized' values and then enumerates them one by one.)"""
    args = sig.bind_partial()
    for p in sig.parameters.values():
        name = p.name + space.uniq()
        if p.annotation is int:
            v = SymbolicInt(name, int)
        elif p.annotation is str:
            v = LazyIntSymbolicStr(name, str)
        elif p.annotation is bool:
            v = SymbolicBool(name, bool)
        else:
            raise TypeError('unsupported symbolic parameter type %r' % (p.annotation,))
        args.arguments[p.name] = v
    return args


class Exploration:
    def __init__(self):
        self.paths = 0            # completed paths (verdict reached)
        self.nontrivial = 0       # completed paths that got past the preconditions
        self.skipped = 0
        self.unknown = 0          # paths abandoned (solver unknown / unsupported / timeout)
        self.ignored = 0
        self.exhausted = False
        self.timed_out = False
        self.fails = []           # [{'witness':..., 'msg':...}]
        self.samples = []         # first few witnesses
        self.validated = 0        # per-path native re-executions that agreed
        self.mismatch = []        # symbolic verdict != native verdict (harness error)
        self.queries = 0
        self.solver_s = 0.0
        self.wall = 0.0
        self.unknown_reasons = []
        self.unknown_witnesses = []   # inputs of abandoned paths (best effort)

    def as_dict(self):
        return dict(self.__dict__)


def explore(fn, budget_s=60.0, per_path_s=20.0, max_paths=10**9, validate=None,
            max_fails=3, nsamples=3, witness_filter=None):
    """Explore every feasible path of harness `fn` (annotated int/str/bool parameters are
    symbolic).  fn returns OK/True (holds), SKIP (precondition unmet) or a str/tuple/False
    describing the violation.  validate(witness_dict) -> same kind of verdict, executed
    natively on the concrete witness of every non-trivial path."""
    sig = inspect.signature(fn)
    options = DEFAULT_OPTIONS.overlay(AnalysisOptionSet(
        per_condition_timeout=budget_s, per_path_timeout=per_path_s,
        max_iterations=max_paths, max_uninteresting_iterations=sys.maxsize))
    root = RootNode()
    ex = Exploration()
    q0, s0 = SOLVER['queries'], SOLVER['time']
    v0 = EXTRA['validated']
    t0 = time.time()
    start = process_time()
    exhausted = False
    for _i in range(max_paths):
        itr_start = process_time()
        if itr_start > start + budget_s:
            ex.timed_out = True
            break
        space = StateSpace(execution_deadline=itr_start + per_path_s,
                           model_check_timeout=per_path_s / 2, search_root=root)
        status = None
        stop = False
        with (condition_parser(options.analysis_kind), Patched(), COMPOSITE_TRACER,
              NoTracing(), StateSpaceContext(space)):
            try:
                del FRESH[:]
                pre_args = _gen_args(sig, space)
                args = deepcopyext(pre_args, CopyMode.REGULAR, {})
                ret = None
                with ExceptionFilter() as efilter, ResumedTracing():
                    ret = fn(*args.args, **args.kwargs)
                if efilter.user_exc and isinstance(efilter.user_exc[0], NotDeterministic):
                    raise NotDeterministic
                if efilter.ignore and not efilter.user_exc:
                    raise IgnoreAttempt
                # ---- path complete: verdict
                verdict = None
                if efilter.user_exc:
                    exc, stack = efilter.user_exc
                    fr = stack[-1] if len(stack) else None
                    verdict = 'EXCEPTION ' + type(exc).__name__ + ': ' + str(exc)[:200] + (
                        ' at %s:%s' % (fr.filename, fr.lineno) if fr else '')
                else:
                    if isinstance(ret, Skip):
                        verdict = SKIP
                    elif isinstance(ret, Fail):
                        verdict = 'VIOLATED ' + str(ret.msg)[:600]
                    else:
                        with ResumedTracing():
                            good = (ret is True) or (ret is None) or (
                                isinstance(ret, (bool, SymbolicBool)) and bool(ret))
                        if good:
                            verdict = OK
                        else:
                            verdict = 'VIOLATED ' + str(_peek(ret, None))[:400]
                model = _model()
                witness = {k: _peek(v, model) for k, v in args.arguments.items()}
                for k, v in FRESH:
                    witness[k] = _peek(v, model)
                if isinstance(ret, Fail) and ret.witness:
                    witness.update(ret.witness)
                ex.paths += 1
                if verdict is SKIP:
                    ex.skipped += 1
                else:
                    if witness_filter is None or witness_filter(witness):
                        ex.nontrivial += 1
                    if len(ex.samples) < nsamples:
                        ex.samples.append(witness)
                    if verdict is not OK:
                        ex.fails.append({'witness': witness, 'msg': verdict})
                        if len(ex.fails) >= max_fails:
                            stop = True
                    if validate is not None:
                        try:
                            nat = validate(witness)
                        except Exception as e:   # noqa: only Exception
                            nat = 'EXCEPTION ' + type(e).__name__ + ': ' + str(e)[:200]
                        nat_ok = (nat is True or nat is None)
                        if isinstance(nat, Skip):
                            ex.mismatch.append({'witness': witness, 'symbolic': str(verdict),
                                                'native': 'SKIP'})
                        elif nat_ok == (verdict is OK):
                            ex.validated += 1
                        elif verdict is OK:
                            # the native run of the real code is authoritative: CrossHair's
                            # model of an operation was more lenient than CPython
                            ex.fails.append({'witness': witness,
                                             'msg': 'NATIVE-ONLY ' + str(nat)[:400]})
                            if len(ex.fails) >= max_fails:
                                stop = True
                        else:
                            ex.mismatch.append({'witness': witness, 'symbolic': str(verdict),
                                                'native': str(nat)})
                status = VerificationStatus.CONFIRMED
            except IgnoreAttempt:
                ex.ignored += 1
                status = None
            except UnexploredPath as e:
                ex.unknown += 1
                if len(ex.unknown_reasons) < 5:
                    ex.unknown_reasons.append(type(e).__name__ + ': ' + str(e)[:200])
                if len(ex.unknown_witnesses) < 30:
                    try:
                        m = _model()
                        w = {k: _peek(v, m) for k, v in args.arguments.items()}
                        for k, v in FRESH:
                            w[k] = _peek(v, m)
                        ex.unknown_witnesses.append(w)
                    except BaseException:     # noqa: best effort only
                        pass
                status = VerificationStatus.UNKNOWN
            _a, exhausted = space.bubble_status(CallAnalysis(status))
        if stop or exhausted:
            break
    ex.exhausted = bool(exhausted)
    ex.validated += EXTRA['validated'] - v0
    ex.queries = SOLVER['queries'] - q0
    ex.solver_s = round(SOLVER['time'] - s0, 3)
    ex.wall = round(time.time() - t0, 3)
    return ex
