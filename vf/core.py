"""Check runner: work items -> 16 worker processes -> replay -> verdict -> evidence.

Exit codes: 0 property held on everything explored (known findings are printed as
KNOWN-FINDING lines), 1 reproduced violation (VIOLATION line), 2 harness error /
inconclusive machinery (non-reproducing witness, symbolic/native mismatch, vacuity twin not
refuted, crashed worker).  Exit 2 is never a statement about YaLafi.
"""
import importlib
import json
import multiprocessing as mp
import os
import random
import subprocess
import sys
import time
import traceback

VERIF = os.path.dirname(os.path.dirname(os.path.abspath(__file__)))
REPO = os.environ.get('VERIF_REPO', '/repo')
VENV_PY = '/venv/bin/python'
EVID = os.environ.get('VERIF_EVID', os.path.join(VERIF, 'evidence'))
REPLAY_DIR = os.path.join(EVID, 'replay')
GUARD = 'MATZE_DD_YALAFI_VERIF'


def load(pid):
    return importlib.import_module('vf.props.' + pid.lower())


def _worker(arg):
    pid, item = arg
    t0 = time.time()
    try:
        mod = load(pid)
        res = mod.run_item(item)
        res['item'] = item
        res['wall'] = round(time.time() - t0, 2)
        return res
    except BaseException:      # noqa: worker crash is a harness error (also a SystemExit that
        # a harness lets through: the pool would wait for the lost task for ever)
        return {'item': item, 'crash': traceback.format_exc()[-1500:],
                'wall': round(time.time() - t0, 2)}


def native_replay(pid, rep):
    """run the concrete re-check of a witness under the interpreter of the test suite.
    returns (reproduced: bool, message)"""
    env = dict(os.environ)
    env['PYTHONPATH'] = VERIF + os.pathsep + REPO
    env[GUARD] = '1'
    p = subprocess.run([VENV_PY, '-m', 'vf.replay', pid, json.dumps(rep)],
                       cwd=VERIF, env=env, capture_output=True, text=True, timeout=600)
    out = p.stdout.strip().splitlines()
    last = out[-1] if out else ''
    if p.returncode == 1 and last.startswith('REPRODUCED'):
        return True, last
    if p.returncode == 0:
        return False, last or 'not reproduced'
    return None, 'replay crashed: ' + (p.stderr[-600:] or last)


def load_findings():
    fn = os.path.join(VERIF, 'known_findings.json')
    if not os.path.exists(fn):
        return []
    return json.load(open(fn)).get('findings', [])


def finding_matches(f, pid, rep, msg):
    """a finding lists property, harness and a substring of the replay record"""
    if f.get('property') != pid or f.get('status') != 'open':
        return False
    m = f.get('match', {})
    if m.get('harness') and m['harness'] != rep.get('h'):
        return False
    blob = json.dumps(rep, sort_keys=True, ensure_ascii=False) + ' ' + msg
    return all(s in blob for s in m.get('contains', []))


def main(argv):
    if len(argv) >= 3 and argv[1] == '--replay':
        rep = json.load(open(argv[2]))
        ok, msg = native_replay(rep['property'], rep['replay'])
        print(msg)
        return 1 if ok else 0
    pid = argv[1].upper()
    tier = argv[2] if len(argv) > 2 else os.environ.get('VERIF_TIER', 'quick')
    seed = int(os.environ.get('VERIF_SEED', '0'))
    only = argv[3] if len(argv) > 3 else None
    t0 = time.time()
    mod = load(pid)
    items = mod.items(tier, seed)
    if only:
        items = [it for it in items if only in json.dumps(it)]
    random.Random(seed).shuffle(items)
    # long items first
    items.sort(key=lambda it: -it.get('cost', 1))
    nproc = int(os.environ.get('VERIF_JOBS', '16'))
    ctx = mp.get_context('fork')
    results = []
    with ctx.Pool(nproc, maxtasksperchild=8) as pool:
        for r in pool.imap_unordered(_worker, [(pid, it) for it in items]):
            results.append(r)
            if os.environ.get('VERIF_FIRSTFAIL') and r.get('fails') and not r['item'].get('twin') \
                    and not any(all(c in json.dumps(r['item'], ensure_ascii=False)
                                    for c in f.get('match', {}).get('contains', ['\0']))
                                for f in load_findings() if f.get('status') == 'open'):
                # detection runs against seeded changes: one reproduced violation is enough
                # (the remaining items are not explored; never used by the registered commands)
                pool.terminate()
                break
            if os.environ.get('VERIF_VERBOSE'):
                print('item', json.dumps(r.get('item'), ensure_ascii=False)[:150],
                      {k: r.get(k) for k in ('paths', 'nontrivial', 'unknown', 'exhausted',
                                             'wall', 'queries')},
                      'FAILS %d' % len(r.get('fails', [])) if r.get('fails') else '',
                      r.get('crash', ''), flush=True)
    return finish(pid, tier, seed, mod, items, results, t0)


def finish(pid, tier, seed, mod, items, results, t0):
    os.makedirs(REPLAY_DIR, exist_ok=True)
    for f in os.listdir(REPLAY_DIR):
        if f.startswith(pid + '-'):
            os.unlink(os.path.join(REPLAY_DIR, f))
    findings = load_findings()
    harness_errors = []
    violations = []
    known = {}
    tot = dict(paths=0, nontrivial=0, unknown=0, queries=0, solver_s=0.0, validated=0,
               smt_queries=0)
    not_exhausted = []
    samples = []
    twins = twins_refuted = 0
    replays = 0
    per_h = {}
    for r in results:
        it = r.get('item', {})
        h = it.get('h', '?')
        ph = per_h.setdefault(h, dict(items=0, paths=0, exhausted=0, queries=0, unknown=0))
        ph['items'] += 1
        if 'crash' in r:
            harness_errors.append('worker crash on %s: %s' % (json.dumps(it)[:200], r['crash']))
            continue
        for k in ('paths', 'nontrivial', 'unknown', 'queries', 'validated', 'smt_queries'):
            tot[k] += r.get(k, 0)
        tot['solver_s'] += r.get('solver_s', 0.0)
        ph['paths'] += r.get('paths', 0)
        ph['queries'] += r.get('queries', 0) + r.get('smt_queries', 0)
        ph['unknown'] += r.get('unknown', 0)
        if r.get('exhausted'):
            ph['exhausted'] += 1
        else:
            not_exhausted.append({'item': it, 'paths': r.get('paths'),
                                  'unknown': r.get('unknown'),
                                  'why': r.get('unknown_reasons', [])[:2]})
        for mm in r.get('mismatch', []):
            harness_errors.append('symbolic/native mismatch on %s: %s'
                                  % (json.dumps(it)[:200], json.dumps(mm)[:400]))
        if len(samples) < 12 and r.get('samples'):
            samples.append({'item': it, 'witness': r['samples'][0]})
        fails = r.get('fails', [])
        if it.get('twin'):
            twins += 1
            if fails:
                twins_refuted += 1
            else:
                harness_errors.append('vacuity twin not refuted: ' + json.dumps(it)[:200])
            continue
        for f in fails:
            rep = f['replay']
            replays += 1
            ok, msg = native_replay(pid, rep)
            if ok is None:
                harness_errors.append('replay crashed for %s: %s' % (json.dumps(rep)[:300], msg))
            elif not ok:
                harness_errors.append('witness did not reproduce natively: %s (%s) symbolic=%s'
                                      % (json.dumps(rep)[:300], msg, f.get('msg', '')[:200]))
            else:
                kf = next((x for x in findings if finding_matches(x, pid, rep, msg)), None)
                if kf:
                    known.setdefault(kf['id'], (kf, []))[1].append(rep)
                else:
                    violations.append({'replay': rep, 'msg': msg, 'symbolic': f.get('msg')})
    # findings listed but not observed this run are still printed only when observed
    for kid, (kf, reps) in known.items():
        print('KNOWN-FINDING: property=%s %s (%d witnesses this run)'
              % (pid, kf['what'], len(reps)))
    vfiles = []
    for n, v in enumerate(violations[:20]):
        path = os.path.join(REPLAY_DIR, '%s-%d.json' % (pid, n))
        json.dump({'property': pid, 'replay': v['replay'], 'observed': v['msg'],
                   'symbolic_verdict': v['symbolic'],
                   'how': './check --replay ' + path}, open(path, 'w'), indent=1,
                  ensure_ascii=False)
        vfiles.append(path)
        print('VIOLATION property=%s replay=%s' % (pid, path))
        print('  ' + v['msg'][:300])
    wall = round(time.time() - t0, 1)
    exhausted_items = sum(1 for r in results if r.get('exhausted'))
    ev = {
        'property_id': pid, 'tier': tier, 'seed': seed, 'level': 'model_checking',
        'coverage': {
            'states': max(tot['paths'], 0),
            'transitions': max(tot['queries'] + tot['smt_queries'], 0),
            'traces_validated_against_impl': tot['validated'] + replays,
            'samples': samples or [{'note': 'no sample'}],
            'evaluations': tot['paths'],
            'distinct_nontrivial': tot['nontrivial'],
            'rule': ('states = completed symbolic paths (each a distinct path condition = class '
                     'of inputs) plus discharged SMT obligations; transitions = z3 queries that '
                     'decided a branch or an obligation; non-trivial = path that got past the '
                     'harness preconditions and reached the final assertions; '
                     'traces_validated = witnesses re-executed natively on the unmodified code '
                     'with the same verdict. ' + getattr(mod, 'RULE', '')),
            'items': len(items), 'items_exhausted': exhausted_items,
            'exhaustive': exhausted_items == len(items) and not harness_errors,
            'unknown_paths': tot['unknown'],
            'not_exhausted': not_exhausted[:10],
            'solver_time_s': round(tot['solver_s'], 2),
            'solver_queries': tot['queries'] + tot['smt_queries'],
            'per_harness': per_h,
            'vacuity_twins': twins, 'vacuity_twins_refuted': twins_refuted,
            'functions_encoded': getattr(mod, 'FUNCTIONS', []),
            'bounds': getattr(mod, 'BOUNDS', {}).get(tier, getattr(mod, 'BOUNDS', '')),
            'outside_bounds': getattr(mod, 'OUTSIDE', ''),
            'known_findings_seen': sorted(known),
            'harness_errors': harness_errors[:10],
            'engine': 'CrossHair 0.0.110 (own path driver) + z3 %s, python3-vt; replays under %s'
                      % (_z3v(), VENV_PY),
        },
        'assumptions': getattr(mod, 'ASSUMPTIONS', []),
        'wall_s': wall,
        'violations': len(violations),
    }
    os.makedirs(EVID, exist_ok=True)
    json.dump(ev, open(os.path.join(EVID, pid + '.json'), 'w'), indent=1, ensure_ascii=False)
    print('%s %s: items=%d exhausted=%d paths=%d nontrivial=%d unknown=%d queries=%d '
          'solver=%.1fs validated=%d twins=%d/%d violations=%d known=%d wall=%.0fs'
          % (pid, tier, len(items), exhausted_items, tot['paths'], tot['nontrivial'],
             tot['unknown'], tot['queries'] + tot['smt_queries'], tot['solver_s'],
             tot['validated'], twins_refuted, twins, len(violations), len(known), wall))
    if violations:
        return 1
    if harness_errors:
        for e in harness_errors[:10]:
            print('HARNESS-ERROR: ' + e[:600])
        return 2
    return 0


def _z3v():
    try:
        import z3
        return z3.get_version_string()
    except Exception:
        return '?'


if __name__ == '__main__':
    sys.exit(main(sys.argv))
