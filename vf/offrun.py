"""Generic E1-off harness: real tex2txt on Src(S, d, e) with d, e symbolic (see srcmodel).

Per path:  symbolic run  ->  witness (d0, e0) read from the model  ->  the real document
P.S.Q is filtered natively by the unmodified code  ->  LINK: one z3 validity query proves
that on this path every position is  native position + (d - d0) [+ (e - e0) for the
end-anchored half of an error mark], the text is the native text and the diagnostics are the
native ones  ->  the RANGE obligation 1 <= p <= d+|S|+e is discharged by z3 for all d, e of
the path  ->  the concrete oracle judges the native result (which by LINK stands for every
d, e of the path).
"""
import contextlib
import io

from vf import srcmodel, yal
from vf.yal import tex2txt


def flatten(res):
    """single result or multi-language dict -> list of (label, plain, charmap)"""
    if isinstance(res, dict):
        out = []
        for lang in res:
            for i, part in enumerate(res[lang]):
                out.append((lang + '#' + str(i), part[0], part[1]))
        return out
    return [('', res[0], res[1])]


def _modify(thresh):
    def m(parms):
        srcmodel.hook(parms)
        if thresh is not None:
            parms.ml_continue_thresh = thresh
    return m


def native(S, d, e, optsd, ml, thresh=None):
    doc = srcmodel.real_doc(S, d, e)

    def m(parms):
        if thresh is not None:
            parms.ml_continue_thresh = thresh
    try:
        res, diags, err = yal.run_native(doc, yal.mkopts(optsd), ml, m)
        return doc, flatten(res), diags, None
    except SystemExit as ex:
        return doc, None, [], 'SystemExit(%r)' % (ex.code,)


def rel_positions(flat, d):
    return [(lab, plain, [p - d for p in cm]) for lab, plain, cm in flat]


def concrete_check(S, d, e, optsd, ml, oracle, pre_ok=True, suf_ok=True, thresh=None,
                   twin=False, exit_ok=False):
    """native verdict for one concrete (d, e): structure, range, shift covariance, oracle"""
    doc, flat, diags, ex = native(S, d, e, optsd, ml, thresh)
    if ex is not None:
        return None if exit_ok else 'filter stopped with ' + ex
    n = len(doc)
    for lab, plain, cm in flat:
        if len(plain) != len(cm):
            return 'C01 length: len(plain)=%d len(map)=%d part %s' % (len(plain), len(cm), lab)
    if optsd.get('unkn'):
        # --unkn: the map is a dummy; only the length claim applies (property text)
        return oracle(S, d, e, doc, flat, diags) if oracle is not None else None
    for lab, plain, cm in flat:
        for k, p in enumerate(cm):
            hi = n - 1 if twin else n
            if not (1 <= p <= hi):
                return 'C01 range: map[%d]=%d not in 1..%d (part %s, char %r) doc=%r' % (
                    k, p, hi, lab, plain[k], doc[:80])
    # shift covariance: same skeleton, other comment prefix/suffix lengths
    d2 = d + 5 if (pre_ok and d > 0) else (7 if pre_ok else d)
    e2 = e + 3 if suf_ok else e
    if (d2, e2) != (d, e):
        doc2, flat2, diags2, ex2 = native(S, d2, e2, optsd, ml, thresh)
        if ex2 is None and flat2 is not None:
            a = [(lab, plain) for lab, plain, cm in flat]
            b = [(lab, plain) for lab, plain, cm in flat2]
            if a == b and e2 == e:
                ra = [[p - d for p in cm] for _l, _p, cm in flat]
                rb = [[p - d2 for p in cm] for _l, _p, cm in flat2]
                if ra != rb:
                    k = next((i, j) for i in range(len(ra)) for j in range(len(ra[i]))
                             if ra[i][j] != rb[i][j])
                    return ('positions are not tied to the source: with a %d instead of %d '
                            'character comment line in front, char %d of part %d moves by %d '
                            'instead of %d; doc=%r' % (
                                d2, d, k[1], k[0], flat2[k[0]][2][k[1]] - flat[k[0]][2][k[1]],
                                d2 - d, doc[:80]))
    if oracle is not None:
        return oracle(S, d, e, doc, flat, diags)
    return None


def make(S, optsd, ml, oracle, pre_ok, suf_ok, thresh=None, twin=False, exit_ok=False,
         sym_thresh=False):
    """returns (prop, concrete).  prop(d, e[, T]) is explored by the driver."""
    def concrete(w):
        return concrete_check(S, w['d'], w['e'], optsd, ml, oracle, pre_ok, suf_ok,
                              w.get('T', thresh), twin, exit_ok)
    try:
        from vf import driver as D
        import z3
    except ImportError:          # native replay interpreter: no CrossHair
        return None, concrete
    opts = yal.mkopts(optsd)
    dummy = bool(optsd.get('unkn'))

    def body(d, e, T):
        if not (d == 0 or d >= 2) or e < 0:
            return D.SKIP
        if not pre_ok and d != 0:
            return D.SKIP
        if not suf_ok and e != 0:
            return D.SKIP
        if sym_thresh and not (0 <= T <= 6):
            return D.SKIP
        src = srcmodel.Src(S, d, e)
        exited = None
        with yal.symbolic_stderr() as rec:
            try:
                res = tex2txt.tex2txt(src, opts, ml, _modify(T))
            except SystemExit as ex:
                exited = ex
        with D.NoTracing():
            model = D._model()
            d0, e0 = D._peek(d, model), D._peek(e, model)
            T0 = D._peek(T, model) if T is not None else None
            doc, nflat, ndiags, nex = native(S, d0, e0, optsd, ml, T0)
            if exited is not None or nex is not None:
                if (exited is None) != (nex is None):
                    return 'LINK exit mismatch sym=%r nat=%r' % (exited, nex)
                return True if exit_ok else 'filter stopped with ' + str(nex)
            sflat = flatten(res)
            if [x[0] for x in sflat] != [x[0] for x in nflat]:
                return 'LINK parts differ %r / %r' % ([x[0] for x in sflat],
                                                      [x[0] for x in nflat])
            link = []
            rng = []
            dv, ev = D.z3var(d), D.z3var(e)
            n = dv + len(S) + ev
            for (lab, sp, scm), (_l, np_, ncm) in zip(sflat, nflat):
                spk = D._peek(sp, model)
                if len(np_) != len(ncm):
                    return 'C01 length: len(plain)=%d len(map)=%d part %s doc=%r' % (
                        len(np_), len(ncm), lab, doc[:80])
                if spk != np_ or list.__len__(list(scm)) != len(ncm):
                    return 'LINK text differs part %s: sym=%r nat=%r' % (lab, spk[:60], np_[:60])
                cands = []
                for k, p in enumerate(scm):
                    if dummy:
                        break
                    pv = D.z3var(p)
                    cands.append((pv, ncm[k]))
                    rng.append(z3.And(pv >= 1, pv <= (n - 1 if twin else n)))
                link.append(cands)
            # diagnostics
            if len(rec.events) != len(ndiags):
                return 'LINK diagnostics differ sym=%d nat=%d' % (len(rec.events), len(ndiags))
            dl = []
            for (sl, sc, st), (nl, nc, nt) in zip(rec.events, ndiags):
                dl.append(z3.And(D.z3var(sl) == nl, D.z3var(sc) == nc))
            # LINK query: shift by d (or by d and e for end-anchored entries)
            conj = [z3.And(*dl)] if dl else []
            for cands in link:
                for pv, nv in cands:
                    conj.append(z3.Or(pv == nv + (dv - d0), pv == nv + (dv - d0) + (ev - e0)))
            if conj and not D.must_hold(z3.And(*conj)):
                # positions or diagnostics not determined by the shift: decide natively
                r = concrete_check(S, d0, e0, optsd, ml, oracle, pre_ok, suf_ok, T0, twin,
                                   exit_ok)
                if r is None:
                    return 'LINK failed but native check passes (harness inconclusive)'
                return r
            if rng and not D.must_hold(z3.And(*rng)):
                r = concrete_check(S, d0, e0, optsd, ml, None, pre_ok, suf_ok, T0, twin, exit_ok)
                # find the offending values with the solver: a counter-model
                return r or _range_cex(D, rng, d, e, S, optsd, ml, T0, twin)
            D.EXTRA['validated'] += 1
            if oracle is not None:
                r = oracle(S, d0, e0, doc, nflat, ndiags)
                if r is not None and r is not True:
                    wit = {'d': d0, 'e': e0}
                    if T0 is not None and sym_thresh:
                        wit['T'] = T0
                    return D.Fail(r, wit)
            return True

    if sym_thresh:
        def prop(d: int, e: int, T: int):
            return body(d, e, T)
    else:
        def prop(d: int, e: int):
            return body(d, e, thresh)

    return prop, concrete


def _range_cex(D, rng, d, e, S, optsd, ml, T0, twin):
    """the range obligation is not valid on this path: ask z3 for d, e that break it and
    report them (the caller's replay runs them natively)"""
    import z3
    space = D.context_statespace()
    r = D._orig_check(space.solver, z3.Not(z3.And(*rng)))
    if str(r) != 'sat':
        return 'range obligation undecided'
    m = space.solver.model()
    d1 = m.eval(D.z3var(d), model_completion=True).as_long()
    e1 = m.eval(D.z3var(e), model_completion=True).as_long()
    r2 = concrete_check(S, d1, e1, optsd, ml, None, True, True, T0, twin)
    return D.Fail(('CEX d=%d e=%d: ' % (d1, e1)) + str(r2), {'d': d1, 'e': e1})
