#!/bin/sh
# runs every quick (or $1) check on /repo as it is; summary lines only
tier=${1:-quick}
cd /verif
for p in C01 C02 C03 C04 C05 C06 C07 C08 C09 C10 C11 C12 C13 C14 C15 C16 C17 C18 C19 C20; do
  ./check $p $tier > /tmp/w/run_$p.log 2>&1; rc=$?
  echo "rc=$rc $(grep "^$p $tier:" /tmp/w/run_$p.log | tail -1)"
  grep -h "^VIOLATION\|^HARNESS-ERROR\|^KNOWN-FINDING" /tmp/w/run_$p.log | head -3
done
