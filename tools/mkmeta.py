#!/usr/bin/env python3
"""writes seeded/<id>/meta.json from notes.md, verify.json, detect.json"""
import glob, json, os, re
V = '/verif'
for d in sorted(glob.glob(V + '/seeded/*/')):
    mid = os.path.basename(d.rstrip('/'))
    notes = open(d + 'notes.md', encoding='utf-8').read() if os.path.exists(d + 'notes.md') else ''
    ver = json.load(open(d + 'verify.json')) if os.path.exists(d + 'verify.json') else None
    det = json.load(open(d + 'detect.json')) if os.path.exists(d + 'detect.json') else {}
    if mid.startswith('ORIG'):
        prop = sorted(det) or ['?']
        origin = 'reverse patch of a "fix:" commit in /repo: re-introduces a genuine defect of the pinned tree'
        needs = notes.strip().split('\n')[0]
        ran = ['git -C <scratch worktree> apply patch.diff', './check <P> quick (VERIF_REPO=<scratch worktree>)']
    else:
        prop = [mid.split('-')[0]]
        rnd = {'m': 1, 'n': 2, 'p': 3, 'q': 4}[mid.split('-')[1][0]]
        origin = 'fresh sub-agent (round %d) given only the property text and a scratch worktree' % rnd
        needs = ' '.join(notes.strip().split('\n')[:12])[:900]
        ran = ['git apply patch.diff in the scratch worktree; full test suite in a private network namespace '
               '(unshare -rn): 454 passed', 'demo.py: exit 1 with the change, exit 0 without',
               './check <P> quick with VERIF_REPO=<scratch worktree with the patch> (equivalent to git -C /repo apply; '
               'run; git -C /repo checkout -- .)']
    meta = {'id': mid, 'breaks_property': prop, 'origin': origin, 'needs_to_manifest': needs,
            'confirmed': ver, 'ran': ran,
            'detected_by': {p: {'detected': r.get('exit') == 1, 'violations': r.get('violations'),
                                'first_report': r.get('first'), 'tier': r.get('tier'),
                                'wall_s': r.get('wall')} for p, r in det.items()}}
    json.dump(meta, open(d + 'meta.json', 'w'), indent=1, ensure_ascii=False)
print('meta written')
