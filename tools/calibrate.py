"""native sweep of the document family through the oracle (no solver): used while writing the
algebra to find disagreements between the reference annotations and the unchanged code"""
import sys, collections
sys.path.insert(0, '/verif'); sys.path.insert(0, '/repo')
from vf import yal, oracle, family
tier = sys.argv[1] if len(sys.argv) > 1 else 'quick'
fam = family.family(tier, 0)
bad = collections.Counter(); shown = 0
for name, spec in fam:
    try:
        n = family.build(spec)
    except Exception as e:
        print('BUILD', name, repr(e)); bad['build'] += 1; continue
    res, diags, err = yal.run_native(n.src, yal.mkopts(family.OPTS))
    f = oracle.check(n, res[0], res[1])
    if f or diags:
        bad[name.split(':')[0]] += 1
        if shown < int(sys.argv[2] if len(sys.argv) > 2 else 15):
            shown += 1
            print('==', name, repr(n.src[n.src.index('Start'):])); print('   ', repr(res[0][res[0].index('Start'):]))
            for x in f[:2]: print('   ', x)
            if diags: print('   DIAG', diags)
print('docs', len(fam), 'bad', dict(bad))
