#!/usr/bin/env python3
"""prints the markdown tables of DESIGN.md section 10/11 from seeded/*/meta.json and evidence/*.json"""
import glob, json, os, sys
V = '/verif'
print('### 10.1 Seeded changes and which check reports them (quick tier)\n')
print('| id | origin | needs, to manifest | reported by (violations) |')
print('|---|---|---|---|')
def key(d):
    n = os.path.basename(d.rstrip('/'))
    a, b = n.split('-')
    return (0 if a != 'ORIG' else 1, a, (b[0], int(b[1:])) if a != 'ORIG' else ('', int(b)))
for d in sorted(glob.glob(V + '/seeded/*/'), key=key):
    m = json.load(open(d + 'meta.json'))
    det = m['detected_by']
    rep = ', '.join('%s %s(%s)' % (p, 'YES ' if r['detected'] else '**no** ', r['violations']) for p, r in sorted(det.items())) or 'not run'
    org = 'fix reversed' if m['id'].startswith('ORIG') else 'agent r%d' % {'m': 1, 'n': 2, 'p': 3, 'q': 4}[m['id'].split('-')[1][0]]
    needs = m['needs_to_manifest'].replace('|', '\\|').replace('\n', ' ')
    needs = needs[:170] + ('…' if len(needs) > 170 else '')
    print('| %s | %s | %s | %s |' % (m['id'], org, needs, rep))
print('\n### 11 Tiers as run (from the evidence files)\n')
print('| property | tier | items | exhausted | paths | non-trivial | unknown | z3 queries | solver s | validated natively | wall s |')
print('|---|---|---|---|---|---|---|---|---|---|---|')
for f in sorted(glob.glob(V + '/evidence/C*.json')) + sorted(glob.glob(V + '/evidence/thorough/C*.json')):
    e = json.load(open(f)); c = e['coverage']
    print('| %s | %s | %d | %d | %d | %d | %d | %d | %.0f | %d | %.0f |' % (
        e['property_id'], e['tier'], c['items'], c['items_exhausted'], c['states'], c['distinct_nontrivial'],
        c['unknown_paths'], c['solver_queries'], c['solver_time_s'], c['traces_validated_against_impl'], e['wall_s']))
