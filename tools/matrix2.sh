#!/bin/sh
cd /verif
for m in "$@"; do
  p=$(echo $m | cut -d- -f1)
  case $m in
    ORIG-1) p="C01 C09";; ORIG-2) p=C08;; ORIG-3) p=C04;; ORIG-4) p=C17;; ORIG-5) p=C15;;
    ORIG-6) p="C01";; ORIG-7) p=C15;; ORIG-8) p="C15";; ORIG-9) p=C20;; ORIG-10) p=C07;;
    ORIG-11) p="C09";; ORIG-12) p="C10";; ORIG-13) p=C11;; ORIG-14) p=C01;; ORIG-15) p=C01;;
    ORIG-16) p=C01;; ORIG-17) p=C03;; ORIG-18) p=C07;; ORIG-19) p=C08;; ORIG-20) p=C12;;
    ORIG-21) p=C04;; ORIG-22) p=C15;;
    ORIG-23) p="C01 C04";; ORIG-24) p=C12;; ORIG-25) p=C20;; ORIG-26) p=C15;; ORIG-27) p=C19;;
    ORIG-28) p=C03;; ORIG-29) p=C05;; ORIG-30) p=C03;; ORIG-31) p=C03;; ORIG-32) p=C08;;
    ORIG-33) p=C11;; ORIG-34) p=C11;; ORIG-35) p=C13;; ORIG-36) p=C18;; ORIG-37) p=C02;;
  esac
  VERIF_JOBS=${MJOBS:-8} python3 tools/mutants.py detect $m $p 2>&1 | cut -c1-330
done
