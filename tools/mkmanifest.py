#!/usr/bin/env python3
"""regenerates /verif/MANIFEST.json from the table below (keep not_applicable current!)"""
import json, os
V = os.path.dirname(os.path.dirname(os.path.abspath(__file__)))
props = [json.loads(l) for l in open(os.path.join(V, 'properties.jsonl'))]
ids = [p['id'] for p in props]

T_OFF = 'symbolic execution of tex2txt (CrossHair) on skeleton documents with symbolic offsets; z3 validity queries link each path to a native run; event oracle; native replay'
N_OFF = 'Trusted: CrossHair 0.0.110 + z3 5.1.0; scanner re-basing stub (prechecked per skeleton, linked natively per path); stderr formatting stub; event annotations of vf/docs.py (reference written from property texts/README). Bound: the enumerated document family (see evidence.bounds); inside it the solver decides offsets, hole contents and layouts.'
CLAIMED = {
 'C01': dict(
   text='Bounded symbolic model checking of the real filter: for every skeleton of the catalogue (well-formed, faulty, truncated, token-deleted) x option set x multi-language flag, CrossHair/z3 explores every path of tex2txt on the document P.S.Q with the lengths d,e of the surrounding comment text symbolic and unbounded; z3 discharges len(plain)==len(map) and 1<=p<=len(source) for all d,e of each path; each path is linked to a native run of the unmodified code.',
   note='Trusted: CrossHair 0.0.110 + z3 5.1.0; scanner re-basing stub (prechecked per skeleton, linked natively per path); stderr formatting stub. Bound: the skeleton family and option sets listed in evidence; P,Q comment text only. CLI --nums is exercised by replays only.',
   technique='symbolic execution of tex2txt (CrossHair) with symbolic offsets; z3 validity queries for range/length; native replay',
   ref='DESIGN.md 4/C01'),
 'C02': dict(text='Bounded symbolic model checking: document family (construct catalogue: singles, pairs x layouts, nestings, repeats) with symbolic surrounding offsets, plus sketches with a symbolic hole (blanks / letters, length <= 3) before, inside and after every position-sensitive construct; per path z3 proves the output is the native output up to the symbolic parts, the event oracle demands every copied character at its own source offset.',
   note=N_OFF, technique=T_OFF + '; token-spliced symbolic holes', ref='DESIGN.md 4/C02'),
 'C03': dict(text='Same machinery as C02 with the text-conservation assertions of the event oracle: expected copies in order, detached flows after the main flow, generated text per construct, nothing else (no hidden text, no markup).',
   note=N_OFF, technique=T_OFF, ref='DESIGN.md 4/C03'),
 'C04': dict(text='Same machinery as C02 with the assertion that every generated character (placeholders, labels, full stops, titles, macro bodies, separators) maps into the source span of its construct, including repeated and nested uses.',
   note=N_OFF, technique=T_OFF, ref='DESIGN.md 4/C04'),
 'C13': dict(text='Real substitute/replace_phrases executed under CrossHair with the position list made of free symbolic integers; z3 proves (validity, all integer values) that every output position is the reference one; an independent word matcher gives the expected text; the separator pattern built by the real code is translated to a z3 regular expression and the paragraph-safety obligations are discharged (unbounded).',
   note='Trusted: CrossHair+z3, re._parser, the 50-line reference matcher. Bound: catalogue of texts x rule lists (evidence); positions unbounded.',
   technique='symbolic execution with symbolic position lists + z3 validity queries; z3 regex-language obligations', ref='DESIGN.md 4/C13'),
 'C14': dict(text='Real run_proofreader_options + all report generators + server handler on documents with several lines / non-ASCII / footnotes / 5-part multi-language split; symbolic: part index, offset, length of the flagged span, ml_rule_threshold (unbounded); every output format parsed and compared with the reference line/column/length; ordering and per-part language/options checked.',
   note='Trusted: CrossHair+z3; proofreader process stubbed at run_languagetool; the filter itself runs natively (its result does not depend on the symbolic variables). Bound: 6 documents, span length <= 8.',
   technique='symbolic execution of the shell aggregation and generators (CrossHair) with symbolic match coordinates and threshold; native replay', ref='DESIGN.md 4/C14'),
 'C15': dict(text='Real aggregation, decoder and generators on answers whose malformed field and value kind, offset/length (unbounded integers), context offsets and truncation point are symbolic; outcome per output mode must be the shell diagnostic + exit 1 or a report with all locations inside the file.',
   note='Trusted: CrossHair+z3 (native validation of every path: CPython is authoritative where CrossHair is more lenient); proofreader process stubbed at subprocess.run / run_languagetool. Bound: 3 documents, single-field faults, 2 answers truncated at every byte.',
   technique='symbolic execution with symbolic fault choice / integers / truncation point; native validation and replay', ref='DESIGN.md 4/C15'),
 'C16': dict(text='protect_html: z3 regular-language obligations on the patterns read from the real function (each matches exactly one special character) + exhaustive symbolic choice over alphabet^2; generate_html: two matches with symbolic offset, distance, lengths and unbounded context size on sources with HTML-special characters; report parsed with html.parser and compared with the source lines, highlighted spans and allowed markup.',
   note='Trusted: CrossHair+z3, html.parser as reference decoder. Bound: 4 sources <= 4 lines, 2 matches, lengths <= 3.',
   technique='z3 regex obligations + symbolic execution of generate_html with symbolic match geometry', ref='DESIGN.md 4/C16'),
 'C17': dict(text='History is symbolic: two scenario indices chosen by the solver are filtered before the scenario under test, whose result must equal that of a fresh interpreter; key-collision sketches (glossary label, macro name, environment name, language name with a symbolic hole) after a defining document; mutable module-level state compared before/after; server handler with symbolic request fields against a fresh server object.',
   note='Trusted: CrossHair+z3; fresh = new interpreter process. Bound: 17 scenarios, histories of length <= 2 (longer ones follow inductively from state invariance + determinism, which are both checked), key holes <= 2 letters.',
   technique='symbolic execution with symbolic history / key; comparison with a fresh interpreter', ref='DESIGN.md 4/C17'),
 'C18': dict(text='Bounded model check of the real --include work list (AST slice of shell.py) with the inclusion relation as a symbolic bit vector over n <= 3 files (every graph), name styles, duplicates and skip patterns against the reference BFS closure incl. termination bound; extraction lists over sketches with a symbolic hole in the extracted argument and listed macros in comments / skipped regions / verbatim; macros with several mandatory arguments.',
   note='Trusted: CrossHair+z3; file system stubbed (content of a file = its inclusion list). Bound: n <= 3 (thorough 4).',
   technique='bounded model checking of the sliced work-list code with a symbolic graph; symbolic holes for extraction', ref='DESIGN.md 4/C18'),
 'C19': dict(text='Document family + special documents with symbolic surrounding offsets under option unkn: output must be the expected names once each in order of first use; macro name with a symbolic hole decided by the solver against every key of the macro tables (text / maths / argument / after a definition).',
   note=N_OFF, technique=T_OFF + '; symbolic macro names', ref='DESIGN.md 4/C19'),
 'C20': dict(text='Real single-letter and equation-punctuation scans on plain texts given as symbolic strings (any code point, <= 3 chars) and as symbolic choices of <= 4 atoms x accept lists x modes; reference isolated-letter / placeholder scanners independent of re; create_context with unbounded symbolic offset/length.',
   note='Trusted: CrossHair+z3 (every path validated natively), reference scanners (60 lines). Bound: text length <= 4 atoms.',
   technique='symbolic execution of the regex scans on symbolic strings / atom choices; native validation', ref='DESIGN.md 4/C20'),
 'C05': dict(text='Two-hole sketches A . h1 . V . h2 . B for 33 vanishing constructs / chains (labels, comments, skipped regions, removed environments, calls of user macros with multi-line bodies, closing braces of pass-through arguments): both layout holes are symbolic runs of blank / tab / line break (every layout up to 2 (thorough 3) characters each); per path z3 links the symbolic run to the native run; the gap between the words must be GLUED / SPACE / PARAGRAPH as a reference TeX line reader says.',
   note=N_OFF, technique='symbolic execution of tex2txt with two symbolic layout holes (token splice with windows); z3 link queries; reference TeX reader', ref='DESIGN.md 4/C05'),
 'C06': dict(text='Whole filter on a fully symbolic string over every code point except \\ % # $ { } of length <= 3 (thorough 4), and on symbolic choices of <= 3 atoms among the special sequences and their prefixes; compared (text and positions) with a reference greedy longest-match tokenizer over the documented table.',
   note='Trusted: CrossHair+z3 (link to native run per path), reference tokenizer (15 lines). Bound: length <= 3 / <= 3 atoms.',
   technique='symbolic execution of scanner+parser on fully symbolic strings; native replay', ref='DESIGN.md 4/C06'),
 'C07': dict(text='Whole filter on fully symbolic strings (all code points, length <= 2) x option sets x multi-language; holes of <= 2 atoms from the 24 syntax-relevant characters in 47 base documents reaching every argument-indexing handler (solver-enumerated); every character-wise prefix and token-wise truncation/deletion of the skeleton catalogue with symbolic offsets. Verdict: result or documented SystemExit; abandoned paths are re-run natively under an alarm (hang detection).',
   note='Trusted: CrossHair+z3. Termination is a time budget per path (20 s), not a ranking-function proof. Bound: see evidence.',
   technique='symbolic execution on symbolic strings / solver-enumerated holes / symbolic truncation point; native re-run of abandoned paths under a wall-clock alarm', ref='DESIGN.md 4/C07'),
 'C08': dict(text='34 documents with one injected fault of every kind named in the property (incl. faults at the very end of the text) with symbolic comment text before and after: exactly one diagnostic, its line/column equal to the fault offset, complete mark pinned there (z3 discharges the position obligations for all d, e), listed words after the fault survive; family documents produce neither mark nor diagnostic.',
   note=N_OFF, technique=T_OFF + '; symbolic line/column terms of diagnostics', ref='DESIGN.md 4/C08'),
 'C09': dict(text='35 documents over definitions with 0-9 parameters, defaults, \\def, redefinition, use before definition, nested and end-of-text calls with symbolic offsets, judged by the reference TeX substitution; symbolic words inside actual arguments; three supply routes (document / defs option / \\LTinput file) compared relationally for symbolic prefix lengths.',
   note=N_OFF, technique=T_OFF + '; relational three-route comparison', ref='DESIGN.md 4/C09'),
 'C10': dict(text='Formula body symbolic (every character except $ \\ % { } # & [ ], length <= 2) in $..$ and \\(..\\): exactly one placeholder + final punctuation + blanks only for maths space, all mapped inside the formula; symbolic choices of <= 3 maths atoms; 14 rotation documents (text, arguments, items, footnotes, headings, operator-only formulas, de/ru) with symbolic offsets.',
   note=N_OFF, technique=T_OFF + '; symbolic formula bodies', ref='DESIGN.md 4/C10'),
 'C11': dict(text='Equations = rows x aligned sections; the first two sections are a symbolic choice among 24 section kinds, others seeded; x 13 environments x en/de/ru x simple mode; compared with a 60-line reference model of the README scheme (per-line text, rotation, operator words, \\text positions, everything inside the equation); plus symbolic offsets and a symbolic maths hole.',
   note='Trusted: CrossHair+z3; the reference model of the documented scheme. Bound: <= 3 rows x 3 sections.',
   technique='solver-enumerated equation structures + symbolic offsets/holes against a reference model; native replay', ref='DESIGN.md 4/C11'),
 'C12': dict(text='32 babel documents with symbolic surrounding offsets and the continuation threshold symbolic and unbounded (CrossHair forks on its comparisons): every visible character in exactly one part, exact position, part label = reference language stack; an insertion of w words inside a sentence continues the part with one placeholder iff w <= T; same words as the single-language run.',
   note=N_OFF, technique=T_OFF + '; symbolic threshold', ref='DESIGN.md 4/C12'),
}
NOT_YET = 'check not built yet in this session (planned: see DESIGN.md section 4)'

checks = []
for pid in ids:
    if pid not in CLAIMED:
        continue
    c = CLAIMED[pid]
    checks.append({
        'property_id': pid,
        'quick_cmd': './check %s quick' % pid,
        'thorough_cmd': './check %s thorough' % pid,
        'evidence_file': '/verif/evidence/%s.json' % pid,
        'replay_cmd_template': './check --replay {path}',
        'engine': 'vf',
        'level_claimed': {'category': 'model_checking', 'text': c['text'], 'design_ref': c['ref']},
        'level_note': c['note'],
        'technique': c['technique'],
    })
man = {
 'version': 1,
 'setup_cmd': 'cd /verif && python3-vt -c "import crosshair, z3; print(z3.get_version_string())" && PYTHONPATH=/verif:/repo python3-vt -c "import vf.driver, vf.yal"',
 'hooks': {'guard': 'MATZE_DD_YALAFI_VERIF', 'enable': 'no hooks in /repo are needed: checks import the working tree of /repo directly (PYTHONPATH=/repo) and stub only the environment (stderr, file reads, proofreader process) from the outside',
           'baseline_off_cmd': 'cd /repo && /venv/bin/python -m pytest -ra -q -p no:cacheprovider --timeout=900 --continue-on-collection-errors',
           'source_commits': [], 'add_only': True},
 'engines': [{'name': 'vf', 'path': '/verif/vf', 'serves_properties': sorted(CLAIMED),
              'kind_free_text': 'own path driver around CrossHair 0.0.110 (symbolic execution of the real Python code, z3 5.1.0 deciding every branch) + direct z3 encodings generated from the source; python3-vt; witnesses replayed under /venv/bin/python'}],
 'checks': checks,
 'notes': 'Exit codes of ./check: 0 held on everything explored, 1 reproduced violation (VIOLATION line), 2 harness error/inconclusive machinery (never a statement about YaLafi). Genuine defects found and repaired: see known_findings.json ("fixed:" entries) and DESIGN.md section 7.',
 'not_applicable': [{'property_id': pid, 'reason': NOT_YET} for pid in ids if pid not in CLAIMED],
}
json.dump(man, open(os.path.join(V, 'MANIFEST.json'), 'w'), indent=1)
print('claimed', sorted(CLAIMED), 'not claimed', len(man['not_applicable']))
