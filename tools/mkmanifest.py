#!/usr/bin/env python3
"""regenerates /verif/MANIFEST.json from the table below (keep not_applicable current!)"""
import json, os
V = os.path.dirname(os.path.dirname(os.path.abspath(__file__)))
props = [json.loads(l) for l in open(os.path.join(V, 'properties.jsonl'))]
ids = [p['id'] for p in props]

CLAIMED = {
 'C01': dict(
   text='Bounded symbolic model checking of the real filter: for every skeleton of the catalogue (well-formed, faulty, truncated, token-deleted) x option set x multi-language flag, CrossHair/z3 explores every path of tex2txt on the document P.S.Q with the lengths d,e of the surrounding comment text symbolic and unbounded; z3 discharges len(plain)==len(map) and 1<=p<=len(source) for all d,e of each path; each path is linked to a native run of the unmodified code.',
   note='Trusted: CrossHair 0.0.110 + z3 5.1.0; scanner re-basing stub (prechecked per skeleton, linked natively per path); stderr formatting stub. Bound: the skeleton family and option sets listed in evidence; P,Q comment text only. CLI --nums only via write_output harness + smoke run.',
   technique='symbolic execution of tex2txt (CrossHair) with symbolic offsets; z3 validity queries for range/length; native replay',
   ref='DESIGN.md 4/C01'),
}
NOT_YET = 'check not built yet in this session (planned: see DESIGN.md section 4)'

checks = []
for pid in ids:
    if pid not in CLAIMED:
        continue
    c = CLAIMED[pid]
    checks.append({
        'property_id': pid,
        'quick_cmd': './check %s quick' % pid,
        'thorough_cmd': './check %s thorough' % pid,
        'evidence_file': '/verif/evidence/%s.json' % pid,
        'replay_cmd_template': './check --replay {path}',
        'engine': 'vf',
        'level_claimed': {'category': 'model_checking', 'text': c['text'], 'design_ref': c['ref']},
        'level_note': c['note'],
        'technique': c['technique'],
    })
man = {
 'version': 1,
 'setup_cmd': 'cd /verif && python3-vt -c "import crosshair, z3; print(z3.get_version_string())" && PYTHONPATH=/verif:/repo python3-vt -c "import vf.driver, vf.yal"',
 'hooks': {'guard': 'MATZE_DD_YALAFI_VERIF', 'enable': 'no hooks in /repo are needed: checks import the working tree of /repo directly (PYTHONPATH=/repo) and stub only the environment (stderr, file reads, proofreader process) from the outside',
           'baseline_off_cmd': 'cd /repo && /venv/bin/python -m pytest -ra -q -p no:cacheprovider --timeout=900 --continue-on-collection-errors',
           'source_commits': [], 'add_only': True},
 'engines': [{'name': 'vf', 'path': '/verif/vf', 'serves_properties': sorted(CLAIMED),
              'kind_free_text': 'own path driver around CrossHair 0.0.110 (symbolic execution of the real Python code, z3 5.1.0 deciding every branch) + direct z3 encodings generated from the source; python3-vt; witnesses replayed under /venv/bin/python'}],
 'checks': checks,
 'notes': 'Exit codes of ./check: 0 held on everything explored, 1 reproduced violation (VIOLATION line), 2 harness error/inconclusive machinery (never a statement about YaLafi). Genuine defects found and repaired: see known_findings.json ("fixed:" entries) and DESIGN.md section 7.',
 'not_applicable': [{'property_id': pid, 'reason': NOT_YET} for pid in ids if pid not in CLAIMED],
}
json.dump(man, open(os.path.join(V, 'MANIFEST.json'), 'w'), indent=1)
print('claimed', sorted(CLAIMED), 'not claimed', len(man['not_applicable']))
