#!/bin/sh
# every thorough check once, evidence to a scratch directory (timing / sanity run)
cd /verif
for p in "$@"; do
  start=$(date +%s)
  VERIF_EVID=/tmp/w/ev_thorough VERIF_JOBS=${JOBS:-16} ./check $p thorough > /tmp/w/thorough_$p.log 2>&1; rc=$?
  echo "rc=$rc $(($(date +%s)-start))s $(grep "^$p thorough:" /tmp/w/thorough_$p.log | tail -1)"
  grep -h "^VIOLATION\|^HARNESS-ERROR" /tmp/w/thorough_$p.log | head -3
done
