#!/usr/bin/env python3
"""seeded-mutation bookkeeping.
  collect <PID>            copy /tmp/wt/<PID>/out/m*.{patch,py,md} to /verif/seeded/<PID>-m<k>/
  verify <PID>             in the scratch worktree /tmp/wt/<PID>: per patch: apply, full test suite
                           (private network namespace), demo must fail; revert, demo must pass
  detect <ID> <P1> [P2..]  apply seeded/<ID>/patch.diff to /repo, run ./check <P> quick, revert
"""
import json, os, shutil, subprocess, sys, glob, time
V = '/verif'
WT = os.environ.get('WT', '/tmp/wt')          # scratch worktrees of the sub-agents
TAG = os.environ.get('TAG', 'm')             # 'm' round 1, 'n' round 2
SUITE = "unshare -rn sh -c 'ip link set lo up; cd {wt} && /venv/bin/python -m pytest -q -p no:cacheprovider --timeout=900 -x 2>&1 | tail -3'"


def sh(cmd, **kw):
    return subprocess.run(cmd, shell=True, capture_output=True, text=True, **kw)


def collect(pid):
    out = '%s/%s/out' % (WT, pid)
    for p in sorted(glob.glob(out + '/m*.patch')):
        k = os.path.basename(p)[1:-6]
        dst = '%s/seeded/%s-%s%s' % (V, pid, TAG, k)
        os.makedirs(dst, exist_ok=True)
        shutil.copy(p, dst + '/patch.diff')
        for src, name in (('m%s_demo.py' % k, 'demo.py'), ('m%s.md' % k, 'notes.md')):
            if os.path.exists(out + '/' + src):
                shutil.copy(out + '/' + src, dst + '/' + name)
        print('collected', dst)


def verify(pid):
    wt = '%s/%s' % (WT, pid)
    res = {}
    for p in sorted(glob.glob(wt + '/out/m*.patch')):
        k = os.path.basename(p)[1:-6]
        mid = '%s-%s%s' % (pid, TAG, k)
        sh('cd %s && git checkout -q -- .' % wt)
        r = {}
        a = sh('cd %s && git apply out/m%s.patch' % (wt, k))
        r['applies'] = a.returncode == 0
        t = sh(SUITE.format(wt=wt))
        r['suite_tail'] = t.stdout.strip().splitlines()[-1:] if t.stdout.strip() else [t.stderr[-200:]]
        r['suite_pass'] = ' passed' in t.stdout and 'failed' not in t.stdout and 'error' not in t.stdout.lower()
        d = sh('cd %s && /venv/bin/python out/m%s_demo.py' % (wt, k), timeout=900)
        r['demo_with'] = d.returncode
        sh('cd %s && git checkout -q -- .' % wt)
        d2 = sh('cd %s && /venv/bin/python out/m%s_demo.py' % (wt, k), timeout=900)
        r['demo_without'] = d2.returncode
        r['ok'] = bool(r['applies'] and r['suite_pass'] and r['demo_with'] != 0 and r['demo_without'] == 0)
        res[mid] = r
        dst = '%s/seeded/%s' % (V, mid)
        if os.path.isdir(dst):
            json.dump(r, open(dst + '/verify.json', 'w'), indent=1)
        print(mid, r)
    return res


def detect(mid, props, tier='quick'):
    """runs the checks against a scratch worktree of /repo with the patch applied
    (VERIF_REPO), evidence to a scratch directory; /repo itself is not touched"""
    patch = '%s/seeded/%s/patch.diff' % (V, mid)
    wt = '/tmp/mut/' + mid
    sh('git -C /repo worktree remove --force %s; rm -rf %s' % (wt, wt))
    a = sh('mkdir -p /tmp/mut && git -C /repo worktree add -q --detach %s HEAD && git -C %s apply %s' % (wt, wt, patch))
    assert a.returncode == 0, a.stderr
    out = {}
    try:
        for p in props:
            t0 = time.time()
            r = sh('cd %s && VERIF_REPO=%s VERIF_EVID=/tmp/mut/ev-%s%s ./check %s %s' % (
                V, wt, mid, ' VERIF_FIRSTFAIL=1' if os.environ.get('FIRSTFAIL') else '', p, tier))
            viol = [l for l in r.stdout.splitlines() if l.startswith('VIOLATION')]
            first = next((l for l in r.stdout.splitlines() if l.strip().startswith('REPRODUCED')), '')
            herr = [l for l in r.stdout.splitlines() if l.startswith('HARNESS-ERROR')]
            out[p] = {'exit': r.returncode, 'violations': len(viol), 'first': first.strip()[:300],
                      'harness_errors': herr[:2], 'wall': round(time.time() - t0), 'tier': tier}
            print(mid, p, out[p], flush=True)
    finally:
        sh('git -C /repo worktree remove --force %s; rm -rf /tmp/mut/ev-%s' % (wt, mid))
    return out


def reverify(mid):
    """seeded/<mid> against the CURRENT /repo HEAD in a scratch worktree: patch applies, the
    unedited suite passes with it, the demo fails with it and passes without it"""
    d = '%s/seeded/%s' % (V, mid)
    wt = '/tmp/mut/rv-' + mid
    sh('git -C /repo worktree remove --force %s; rm -rf %s' % (wt, wt))
    a = sh('mkdir -p /tmp/mut && git -C /repo worktree add -q --detach %s HEAD' % wt)
    r = {'head': sh('git -C /repo log --format=%h -1').stdout.strip()}
    try:
        if os.path.exists(d + '/demo.py'):
            os.makedirs(wt + '/out', exist_ok=True)
            shutil.copy(d + '/demo.py', wt + '/out/demo.py')
            d0 = sh('cd %s && /venv/bin/python out/demo.py' % wt, timeout=900)
            r['demo_without'] = d0.returncode
        a = sh('git -C %s apply %s/patch.diff' % (wt, d))
        r['applies'] = a.returncode == 0
        if r['applies']:
            t = sh(SUITE.format(wt=wt).replace(' -x', ''))
            r['suite_tail'] = t.stdout.strip().splitlines()[-1:]
            r['suite_pass'] = ' passed' in t.stdout and 'failed' not in t.stdout and 'error' not in t.stdout.lower()
            if os.path.exists(d + '/demo.py'):
                d1 = sh('cd %s && /venv/bin/python out/demo.py' % wt, timeout=900)
                r['demo_with'] = d1.returncode
                r['demo_msg'] = (d1.stdout + d1.stderr).strip()[-200:]
        r['ok'] = bool(r.get('applies') and r.get('suite_pass') and
                       (not os.path.exists(d + '/demo.py') or
                        (r.get('demo_with') != 0 and r.get('demo_without') == 0)))
    finally:
        sh('git -C /repo worktree remove --force %s; rm -rf %s' % (wt, wt))
    json.dump(r, open(d + '/verify.json', 'w'), indent=1)
    print(mid, r.get('ok'), {k: v for k, v in r.items() if k not in ('demo_msg',)}, flush=True)
    return r


if __name__ == '__main__':
    cmd = sys.argv[1]
    if cmd == 'reverify':
        from concurrent.futures import ThreadPoolExecutor
        with ThreadPoolExecutor(int(os.environ.get('RVJOBS', '6'))) as ex:
            list(ex.map(reverify, sys.argv[2:]))
        sys.exit(0)
    if cmd == 'collect':
        for pid in sys.argv[2:]:
            collect(pid)
    elif cmd == 'verify':
        for pid in sys.argv[2:]:
            verify(pid)
    elif cmd == 'detect':
        tier = os.environ.get('TIER', 'quick')
        r = detect(sys.argv[2], sys.argv[3:], tier)
        f = '%s/seeded/%s/detect.json' % (V, sys.argv[2])
        old = json.load(open(f)) if os.path.exists(f) else {}
        old.update(r)
        json.dump(old, open(f, 'w'), indent=1)
