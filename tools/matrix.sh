#!/bin/sh
# detection matrix: each seeded change against the check of its own property
cd /verif
for m in "$@"; do
  p=$(echo $m | cut -d- -f1)
  case $m in
    ORIG-1) p="C01 C09";; ORIG-2) p=C08;; ORIG-3) p=C04;; ORIG-4) p=C17;; ORIG-5) p=C15;;
    ORIG-6) p="C01 C04";; ORIG-7) p=C15;; ORIG-8) p="C15 C16";; ORIG-9) p=C20;;
  esac
  VERIF_JOBS=8 python3 tools/mutants.py detect $m $p 2>&1 | cut -c1-300
done
